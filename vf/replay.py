"""Replay a counterexample file against the real, unshimmed public API.
exit 10 = the violation reproduces; 0 = it does not (spurious); anything else = replay crashed."""
import sys
import json
import importlib
import warnings


def main(path):
    warnings.simplefilter('ignore')
    doc = json.load(open(path))
    mod = importlib.import_module('vf.props.' + doc['property'].lower())
    fn = getattr(mod, 'replay_' + doc['kind'])
    msg = fn(doc['inputs'])
    if msg:
        print('REPRODUCED %s %s: %s' % (doc['property'], doc['obligation'], msg))
        return 10
    print('not reproduced')
    return 0


def server():
    """persistent replay process: one path per stdin line -> one JSON result per stdout line"""
    import io
    import contextlib
    # the protocol gets a private descriptor: anything the replayed code writes to fd 1 itself (prints from handlers
    # that captured sys.stdout at import, C-level writes) must not end up between the JSON lines
    import os
    real_out = os.fdopen(os.dup(1), 'w')
    os.dup2(os.open(os.devnull, os.O_WRONLY), 1)
    for line in sys.stdin:
        path = line.strip()
        if not path:
            continue
        buf = io.StringIO()
        try:
            with contextlib.redirect_stdout(buf), contextlib.redirect_stderr(buf):
                code = main(path)
        except BaseException as ex:  # noqa
            import traceback
            code = 70
            buf.write('replay crashed: %s\n%s' % (ex, traceback.format_exc()[-1500:]))
        real_out.write('@@REPLAY ' + json.dumps({'code': code, 'out': buf.getvalue()[-2000:]}) + '\n')
        real_out.flush()


if __name__ == '__main__':
    if sys.argv[1] == '--server':
        server()
    else:
        sys.exit(main(sys.argv[1]))

"""CLI: python -m vf.run C07 [--tier quick|thorough]"""
import os
import sys
import argparse
import importlib
import warnings
import traceback


def main():
    ap = argparse.ArgumentParser()
    ap.add_argument('pid')
    ap.add_argument('--tier', default=os.environ.get('VERIF_TIER', 'quick'))
    ap.add_argument('--only', default=None, help='regex of obligation groups to run (debugging)')
    a = ap.parse_args()
    warnings.simplefilter('ignore')
    os.environ.setdefault('PYTHONWARNINGS', 'ignore')
    seed = int(os.environ.get('VERIF_SEED', '0') or 0)
    from . import report
    rep = report.Report(a.pid.upper(), a.tier, seed)
    try:
        mod = importlib.import_module('vf.props.' + a.pid.lower())
        mod.run(rep, only=a.only) if a.only else mod.run(rep)
    except BaseException as ex:  # noqa
        rep.harness_errors.append('driver: %s: %s\n%s' % (type(ex).__name__, ex, traceback.format_exc()[-2000:]))
    sys.exit(rep.finish())


if __name__ == '__main__':
    main()

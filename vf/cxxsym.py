"""E3  cxxsym: the C++ of wntr/sim/aml/evaluator.cpp executed from clang's AST on symbolic doubles.

`clang++ -fsyntax-only -Xclang -ast-dump=json -Xclang -ast-dump-filter=<name>` is run on /repo's CURRENT evaluator.cpp (seven
filters in parallel, ~6 s) and the function bodies found in evaluator.cpp / evaluator.hpp are interpreted statement by statement:
every Constraint:: / IfElseConstraint:: / Evaluator:: method, the constructors of Leaf/Var/Param/Float and the `_evaluate` stack
machine.  Values of type double may be vf.symx proxies, so `if (arg >= 0)` forks the path in the explorer and arithmetic builds z3
terms; ints, indices and container structure stay concrete.  What is modelled rather than interpreted (part of every claim):

  std::vector            Python list with value semantics on copy (push_back / copy construction / operator=)
  std::set<T*>           elements iterated in ascending ADDRESS order; addresses come from the harness' allocation policy
  std::map<T*, X>        likewise ordered by key address; operator[] default-constructs
  iterators              (container, position) pairs over the ordered view
  new / delete           objects carry an address and a freed flag: any access to a freed object, any read of an uninitialised
                         scalar or array cell and any out-of-range index raises MemoryFault (reported as a violation of
                         "building / evaluating never fails")
  ::pow exp log sin ...  the uninterpreted functions of vf.symx (shared with the Python side, so congruence applies)
  SWIG layer             CxxEvaluator below: ARGOUT arrays allocated uninitialised with the requested length, IN arrays passed
                         with their length, StructureException -> RuntimeError

Anything the interpreter does not know (a node kind, a library call) raises CxxUnsupported: the check then ends inconclusive
(exit 2), never with a verdict.
"""
import json
import math
import os
import re
import subprocess
from concurrent.futures import ThreadPoolExecutor

from . import symx
from .symx import Sym, SymB

AML_DIR = '/repo/wntr/sim/aml'
FILTERS = ['Evaluator', 'Constraint', '_evaluate', 'Leaf', 'Var', 'Param', 'Float']


class CxxUnsupported(Exception):
    pass


class CxxThrow(Exception):
    def __init__(self, typ, msg):
        Exception.__init__(self, '%s: %s' % (typ, msg))
        self.typ, self.msg = typ, msg


class MemoryFault(Exception):
    pass


class _Uninit:
    def __repr__(self):
        return '<uninitialised>'


UNINIT = _Uninit()


# ---------------------------------------------------------------------------------------------------------------- memory model
class CObj:
    """an instance of a class defined in evaluator.hpp"""
    __slots__ = ('_cls', '_fields', '_addr', '_freed', '_prog')

    def __init__(self, prog, cls, addr):
        object.__setattr__(self, '_prog', prog)
        object.__setattr__(self, '_cls', cls)
        object.__setattr__(self, '_fields', {})
        object.__setattr__(self, '_addr', addr)
        object.__setattr__(self, '_freed', False)

    def _check(self):
        if self._freed:
            raise MemoryFault('use of a deleted %s object' % self._cls)

    # what SWIG exposes to Python: public data members and methods
    def __getattr__(self, name):
        self._check()
        f = self._fields
        if name in f:
            v = f[name]
            if v is UNINIT:
                raise MemoryFault('read of uninitialised member %s::%s' % (self._cls, name))
            return v
        m = self._prog.find_method(self._cls, name)
        if m is not None:
            return lambda *a: self._prog.call(m, self, list(a))
        raise AttributeError(name)

    def __setattr__(self, name, val):
        self._check()
        if name not in self._fields:
            raise AttributeError(name)
        self._fields[name] = val

    def __repr__(self):
        return '<%s@%s>' % (self._cls, self._addr)


class Vec(list):
    def clone(self):
        return Vec(clone(v) for v in self)


class CSet:
    def __init__(self):
        self.items = []

    def ordered(self):
        return sorted(self.items, key=lambda o: o._addr)

    def clone(self):
        s = CSet()
        s.items = list(self.items)
        return s


class CMap:
    def __init__(self):
        self.d = {}

    def ordered(self):
        return [Pair(k, self.d, k) for k in sorted(self.d, key=lambda o: o._addr)]

    def clone(self):
        m = CMap()
        m.d = {k: clone(v) for k, v in self.d.items()}
        return m


class Pair:
    """std::pair<const K, V>& inside a map: `second` aliases the stored value"""
    def __init__(self, first, store, key):
        self.first, self._store, self._key = first, store, key


class Iter:
    def __init__(self, cont=None, pos=0):
        self.cont, self.pos = cont, pos

    def clone(self):
        return Iter(self.cont, self.pos)

    def view(self):
        if isinstance(self.cont, Vec):
            return self.cont
        return self.cont.ordered()

    def deref(self):
        v = self.view()
        if not (0 <= self.pos < len(v)):
            raise MemoryFault('dereference of an end()/invalid iterator')
        return v[self.pos]


class Arr:
    """a heap / caller supplied array (double* / int*)"""
    def __init__(self, n, what='array'):
        self.cells = [UNINIT] * n
        self.what = what
        self.freed = False

    def clone(self):
        return self


def clone(v):
    return v.clone() if isinstance(v, (Vec, CSet, CMap, Iter)) else v


class Ref:
    """an lvalue"""
    __slots__ = ('c', 'k', 'what')

    def __init__(self, c, k, what=''):
        self.c, self.k, self.what = c, k, what

    def load(self):
        c, k = self.c, self.k
        if isinstance(c, Arr):
            if c.freed:
                raise MemoryFault('read through a deleted array (%s)' % c.what)
            if not (0 <= k < len(c.cells)):
                raise MemoryFault('index %d outside %s of length %d' % (k, c.what, len(c.cells)))
            v = c.cells[k]
        elif isinstance(c, Vec):
            if not (0 <= k < len(c)):
                raise MemoryFault('vector index %d out of range (size %d)' % (k, len(c)))
            v = c[k]
        elif isinstance(c, Pair):
            v = c.first if k == 'first' else c._store[c._key]
        else:
            v = c[k]
        if v is UNINIT:
            raise MemoryFault('read of uninitialised %s' % (self.what or k))
        return v

    def store(self, v):
        c, k = self.c, self.k
        if isinstance(c, Arr):
            if c.freed:
                raise MemoryFault('write through a deleted array (%s)' % c.what)
            if not (0 <= k < len(c.cells)):
                raise MemoryFault('index %d outside %s of length %d' % (k, c.what, len(c.cells)))
            c.cells[k] = v
        elif isinstance(c, Vec):
            if not (0 <= k < len(c)):
                raise MemoryFault('vector index %d out of range (size %d)' % (k, len(c)))
            c[k] = v
        elif isinstance(c, Pair):
            if k == 'first':
                raise CxxUnsupported('assignment to pair.first')
            c._store[c._key] = v
        else:
            c[k] = v


class Const:
    """an rvalue in lvalue position (e.g. *set_iterator)"""
    def __init__(self, v):
        self.v = v

    def load(self):
        return self.v

    def store(self, v):
        raise CxxUnsupported('store to a temporary')


class _Return(Exception):
    def __init__(self, v):
        self.v = v


class Env:
    def __init__(self, this):
        self.this = this
        self.locals = {}


# ---------------------------------------------------------------------------------------------------------------- the program
def _dump(flt, src):
    r = subprocess.run(['clang++', '-std=c++11', '-fsyntax-only', '-Xclang', '-ast-dump=json', '-Xclang', '-ast-dump-filter=' + flt, src],
                       capture_output=True, text=True)
    if not r.stdout.strip():
        raise CxxUnsupported('clang produced no AST for filter %s: %s' % (flt, r.stderr[-300:]))
    dec = json.JSONDecoder()
    s, i, out = r.stdout, 0, []
    while i < len(s):
        while i < len(s) and s[i].isspace():
            i += 1
        if i >= len(s):
            break
        o, i = dec.raw_decode(s, i)
        out.append(o)
    return out


def _strip(t):
    t = t.replace('const ', '').replace('class ', '').strip()
    while t.endswith('*') or t.endswith('&'):
        t = t[:-1].strip()
    return t


class Program:
    def __init__(self, aml_dir=AML_DIR, addr_policy='up'):
        self.src = os.path.join(aml_dir, 'evaluator.cpp')
        self.hpp = os.path.join(aml_dir, 'evaluator.hpp')
        self.classes = {}
        self.functions = {}
        self.consts = {}
        self.addr_policy = addr_policy
        self._n_alloc = 0
        self.n_nodes = 0
        self.encoded = []
        for m in re.finditer(r'const\s+int\s+(\w+)\s*=\s*(-?\d+)\s*;', open(self.hpp).read()):
            self.consts[m.group(1)] = int(m.group(2))
        with ThreadPoolExecutor(len(FILTERS)) as ex:
            dumps = list(ex.map(lambda f: _dump(f, self.src), FILTERS))
        rec_ids = {}
        tops = [o for d in dumps for o in d if (o.get('loc', {}).get('file') or o.get('loc', {}).get('includedFrom', {}).get('file', '')).startswith(aml_dir)
                or o.get('loc', {}).get('file', '').startswith(aml_dir)]
        seen = set()
        for o in tops:
            if o['id'] in seen:
                continue
            seen.add(o['id'])
            if o['kind'] == 'CXXRecordDecl' and o.get('completeDefinition'):
                cls = self.classes.setdefault(o['name'], {'fields': [], 'bases': [], 'ctors': [], 'methods': {}})
                rec_ids[o['id']] = o['name']
                cls['bases'] = [_strip(b['type']['qualType']) for b in o.get('bases', [])]
                for c in o.get('inner', []):
                    k = c['kind']
                    if k == 'FieldDecl':
                        cls['fields'].append((c['name'], c['type'].get('desugaredQualType', c['type']['qualType'])))
                    elif k == 'CXXConstructorDecl' and not c.get('isImplicit'):
                        cls['ctors'].append(c)
                    elif k == 'CXXMethodDecl' and not c.get('isImplicit'):
                        rec_ids[c['id']] = (o['name'], c['name'])
                        if any(x.get('kind') == 'CompoundStmt' for x in c.get('inner', [])):
                            cls['methods'][c['name']] = c
        for o in tops:
            if o['kind'] in ('CXXMethodDecl', 'CXXDestructorDecl') and 'parentDeclContextId' in o and any(x.get('kind') == 'CompoundStmt' for x in o.get('inner', [])):
                cname = rec_ids.get(o['parentDeclContextId'])
                if isinstance(cname, str):
                    self.classes[cname]['methods'][o['name']] = o
                    self.encoded.append('%s::%s' % (cname, o['name']))
            elif o['kind'] == 'FunctionDecl' and any(x.get('kind') == 'CompoundStmt' for x in o.get('inner', [])):
                self.functions[o['name']] = o
                self.encoded.append(o['name'])
        for need in ('Evaluator', 'Constraint', 'IfElseConstraint', 'Leaf', 'Var', 'Param', 'Float'):
            if need not in self.classes:
                raise CxxUnsupported('class %s not found in the AST' % need)
        if '_evaluate' not in self.functions:
            raise CxxUnsupported('_evaluate not found in the AST')

    # -- allocation
    def next_addr(self):
        self._n_alloc += 1
        n = self._n_alloc
        if self.addr_policy == 'up':
            return n
        if self.addr_policy == 'down':
            return -n
        return (n * 7919) % 104729          # scrambled but deterministic

    def find_method(self, cls, name):
        c = self.classes.get(cls)
        while c is not None:
            if name in c['methods']:
                return c['methods'][name]
            c = self.classes.get(c['bases'][0]) if c['bases'] else None
        return None

    def default(self, t):
        t = t.replace('const ', '').strip()
        if t.startswith('std::vector<'):
            return Vec()
        if t.startswith('std::set<'):
            return CSet()
        if t.startswith('std::map<'):
            return CMap()
        if 'iterator' in t:
            return Iter()
        return UNINIT

    def construct(self, cname, args, obj=None, node_ctor_type=None):
        if obj is None:
            obj = CObj(self, cname, self.next_addr())
        cls = self.classes[cname]
        for b in cls['bases']:
            pass
        # fields of this class (bases are constructed by the ctor initialisers / default)
        for fname, ftype in cls['fields']:
            obj._fields.setdefault(fname, self.default(ftype))
        ctor = None
        for c in cls['ctors']:
            params = [x for x in c.get('inner', []) if x['kind'] == 'ParmVarDecl']
            if len(params) == len(args):
                ctor = c
        if ctor is None:
            if args:
                raise CxxUnsupported('no constructor of %s with %d arguments' % (cname, len(args)))
            for b in cls['bases']:
                self.construct(b, [], obj)
            return obj
        env = Env(obj)
        params = [x for x in ctor.get('inner', []) if x['kind'] == 'ParmVarDecl']
        for p, a in zip(params, args):
            env.locals[p['id']] = a
        inited_bases = set()
        for ini in [x for x in ctor.get('inner', []) if x['kind'] == 'CXXCtorInitializer']:
            if 'baseInit' in ini:
                b = _strip(ini['baseInit']['qualType'])
                ce = ini['inner'][0]
                bargs = [self.ev(a, env) for a in ce.get('inner', [])]
                self.construct(b, bargs, obj)
                inited_bases.add(b)
            elif 'anyInit' in ini:
                fname = ini['anyInit']['name']
                obj._fields[fname] = clone(self.ev(ini['inner'][0], env))
            else:
                raise CxxUnsupported('constructor initialiser %r' % list(ini))
        for b in cls['bases']:
            if b not in inited_bases:
                self.construct(b, [], obj)
        body = [x for x in ctor.get('inner', []) if x['kind'] == 'CompoundStmt']
        if body:
            try:
                self.exec(body[0], env)
            except _Return:
                pass
        return obj

    def call(self, decl, this, args):
        env = Env(this)
        params = [x for x in decl.get('inner', []) if x['kind'] == 'ParmVarDecl']
        if len(params) != len(args):
            raise CxxUnsupported('%s called with %d arguments, declared with %d' % (decl['name'], len(args), len(params)))
        for p, a in zip(params, args):
            env.locals[p['id']] = a
        body = [x for x in decl['inner'] if x['kind'] == 'CompoundStmt'][0]
        try:
            self.exec(body, env)
        except _Return as r:
            return r.v
        return None

    # -- statements
    def exec(self, n, env):
        self.n_nodes += 1
        k = n['kind']
        if k == 'CompoundStmt':
            for c in n.get('inner', []):
                self.exec(c, env)
        elif k == 'DeclStmt':
            for d in n['inner']:
                if d['kind'] != 'VarDecl':
                    raise CxxUnsupported('declaration ' + d['kind'])
                t = d['type'].get('desugaredQualType', d['type']['qualType'])
                if d.get('inner'):
                    v = clone(self.ev(d['inner'][0], env))
                else:
                    v = self.default(t)
                env.locals[d['id']] = v
        elif k == 'IfStmt':
            inner = n['inner']
            if self.truth(self.ev(inner[0], env)):
                self.exec(inner[1], env)
            elif len(inner) > 2:
                self.exec(inner[2], env)
        elif k == 'ForStmt':
            init, _condvar, cond, inc, body = n['inner']
            if init.get('kind'):
                self.exec(init, env)
            guard = 0
            while (not cond.get('kind')) or self.truth(self.ev(cond, env)):
                self.exec(body, env)
                if inc.get('kind'):
                    self.ev(inc, env)
                guard += 1
                if guard > 100000:
                    raise MemoryFault('loop did not terminate within 100000 iterations')
        elif k == 'WhileStmt':
            cond, body = n['inner']
            guard = 0
            while self.truth(self.ev(cond, env)):
                self.exec(body, env)
                guard += 1
                if guard > 100000:
                    raise MemoryFault('loop did not terminate within 100000 iterations')
        elif k == 'ReturnStmt':
            raise _Return(self.ev(n['inner'][0], env) if n.get('inner') else None)
        elif k == 'NullStmt':
            pass
        else:
            self.ev(n, env)

    @staticmethod
    def truth(v):
        if isinstance(v, (Sym, SymB)):
            return bool(v)          # forks the path in the explorer
        if v is UNINIT:
            raise MemoryFault('branch on an uninitialised value')
        return bool(v)

    # -- expressions
    def lv(self, n, env):
        """evaluate an lvalue expression to a Ref"""
        self.n_nodes += 1
        k = n['kind']
        if k == 'DeclRefExpr':
            rd = n['referencedDecl']
            if rd['kind'] in ('VarDecl', 'ParmVarDecl'):
                if rd['id'] in env.locals:
                    return Ref(env.locals, rd['id'], rd.get('name', ''))
                if rd.get('name') in self.consts:
                    return Const(self.consts[rd['name']])
                raise CxxUnsupported('reference to unknown variable %s' % rd.get('name'))
            raise CxxUnsupported('DeclRefExpr to ' + rd['kind'])
        if k == 'MemberExpr':
            base = n['inner'][0]
            obj = self.ev(base, env)
            if isinstance(obj, Pair):
                return Ref(obj, n['name'])
            if not isinstance(obj, CObj):
                raise CxxUnsupported('member %s of %r' % (n['name'], type(obj)))
            obj._check()
            if n['name'] not in obj._fields:
                raise CxxUnsupported('no data member %s in %s' % (n['name'], obj._cls))
            return Ref(obj._fields, n['name'], '%s::%s' % (obj._cls, n['name']))
        if k == 'ArraySubscriptExpr':
            arr = self.ev(n['inner'][0], env)
            idx = self.ev(n['inner'][1], env)
            if not isinstance(arr, Arr):
                raise CxxUnsupported('subscript of %r' % type(arr))
            return Ref(arr, self.as_index(idx), arr.what)
        if k in ('ParenExpr', 'ExprWithCleanups', 'MaterializeTemporaryExpr', 'CXXBindTemporaryExpr'):
            return self.lv(n['inner'][0], env)
        if k == 'ImplicitCastExpr' and n.get('castKind') in ('NoOp', 'DerivedToBase', 'UncheckedDerivedToBase', 'ConstructorConversion'):
            return self.lv(n['inner'][0], env)
        if k == 'UnaryOperator':
            op = n['opcode']
            if op == '*':
                p = self.ev(n['inner'][0], env)
                if isinstance(p, Arr):
                    return Ref(p, 0, p.what)
                return Const(p)      # *ptr-to-object: the object itself
            if op in ('++', '--') and not n.get('isPostfix'):
                r = self.lv(n['inner'][0], env)
                r.store(r.load() + (1 if op == '++' else -1))
                return r
        if k == 'CXXOperatorCallExpr':
            return self.opcall(n, env, want_ref=True)
        if k in ('BinaryOperator', 'CompoundAssignOperator') and n.get('valueCategory') == 'lvalue':
            return self.assign(n, env)
        return Const(self.ev(n, env))

    @staticmethod
    def as_index(i):
        if isinstance(i, Sym):
            raise CxxUnsupported('symbolic index')
        if i is UNINIT:
            raise MemoryFault('uninitialised index')
        return int(i)

    def assign(self, n, env):
        l, r = n['inner']
        if n['kind'] == 'BinaryOperator':
            v = clone(self.ev(r, env))
            ref = self.lv(l, env)
            ref.store(v)
            return ref
        op = n['opcode'][:-1]
        ref = self.lv(l, env)
        ref.store(self.binop(op, ref.load(), self.ev(r, env)))
        return ref

    @staticmethod
    def binop(op, a, b):
        if a is UNINIT or b is UNINIT:
            raise MemoryFault('arithmetic on an uninitialised value')
        sym = isinstance(a, (Sym, SymB)) or isinstance(b, (Sym, SymB))
        if op == '+':
            return a + b
        if op == '-':
            return a - b
        if op == '*':
            return a * b
        if op == '/':
            if not sym and isinstance(a, int) and isinstance(b, int) and not isinstance(a, bool):
                if b == 0:
                    raise MemoryFault('integer division by zero')
                q = abs(a) // abs(b)
                return q if (a >= 0) == (b >= 0) else -q
            if not sym and b == 0:
                return math.nan if a == 0 or a != a else math.copysign(math.inf, a) * math.copysign(1.0, b)
            return a / b
        if op == '%':
            if sym:
                raise CxxUnsupported('symbolic %')
            return int(math.fmod(a, b))
        if op == '<':
            return a < b
        if op == '<=':
            return a <= b
        if op == '>':
            return a > b
        if op == '>=':
            return a >= b
        if op == '==':
            if isinstance(a, Iter) or isinstance(b, Iter):
                return a.cont is b.cont and a.pos == b.pos
            if isinstance(a, (CObj, Arr)) or isinstance(b, (CObj, Arr)) or a is None or b is None:
                return a is b
            return a == b
        if op == '!=':
            r = Program.binop('==', a, b)
            return ~r if isinstance(r, SymB) else (not r)
        raise CxxUnsupported('binary operator ' + op)

    def ev(self, n, env):
        self.n_nodes += 1
        k = n['kind']
        if k == 'ImplicitCastExpr' or k == 'CStyleCastExpr' or k == 'CXXFunctionalCastExpr' or k == 'CXXStaticCastExpr':
            ck = n.get('castKind')
            c = n['inner'][0]
            if ck == 'LValueToRValue':
                return self.lv(c, env).load()
            v = self.ev(c, env)
            if ck in ('NoOp', 'DerivedToBase', 'UncheckedDerivedToBase', 'BaseToDerived', 'ConstructorConversion', 'FunctionToPointerDecay', 'ArrayToPointerDecay',
                      'IntegralToFloating', 'FloatingCast', 'UserDefinedConversion', 'BitCast'):
                return v
            if ck == 'IntegralCast':
                if isinstance(v, bool):
                    return int(v)
                return v
            if ck == 'FloatingToIntegral':
                if isinstance(v, Sym):
                    raise CxxUnsupported('symbolic double converted to int')
                return int(v)
            if ck in ('IntegralToBoolean', 'FloatingToBoolean'):
                return v != 0
            if ck == 'PointerToBoolean':
                return v is not None
            if ck == 'NullToPointer':
                return None
            raise CxxUnsupported('cast kind %s' % ck)
        if k == 'IntegerLiteral':
            return int(n['value'])
        if k == 'FloatingLiteral':
            return float(n['value'])
        if k == 'CXXBoolLiteralExpr':
            return bool(n['value'])
        if k == 'StringLiteral':
            return json.loads(n['value']) if n['value'].startswith('"') else n['value']
        if k == 'CXXNullPtrLiteralExpr' or k == 'GNUNullExpr':
            return None
        if k == 'CXXThisExpr':
            return env.this
        if k in ('ParenExpr', 'ExprWithCleanups', 'MaterializeTemporaryExpr', 'CXXBindTemporaryExpr', 'ConstantExpr'):
            return self.ev(n['inner'][0], env)
        if k in ('DeclRefExpr', 'MemberExpr', 'ArraySubscriptExpr'):
            if k == 'DeclRefExpr' and n['referencedDecl']['kind'] in ('FunctionDecl', 'CXXMethodDecl'):
                return n['referencedDecl']
            return self.lv(n, env).load()
        if k == 'UnaryOperator':
            op = n['opcode']
            c = n['inner'][0]
            if op in ('++', '--'):
                r = self.lv(c, env)
                old = r.load()
                r.store(old + (1 if op == '++' else -1))
                return old if n.get('isPostfix') else r.load()
            if op == '-':
                return -self.ev(c, env)
            if op == '+':
                return self.ev(c, env)
            if op == '!':
                v = self.ev(c, env)
                return ~v if isinstance(v, SymB) else (not self.truth(v))
            if op == '&':
                r = self.lv(c, env)
                v = r.load() if not isinstance(r, Const) else r.v
                if isinstance(v, (Vec, CSet, CMap, CObj, Arr)):
                    return v            # pointer to an object: the object
                raise CxxUnsupported('address of a scalar')
            if op == '*':
                return self.lv(n, env).load()
            raise CxxUnsupported('unary operator ' + op)
        if k == 'BinaryOperator':
            op = n['opcode']
            if op == '=':
                return self.assign(n, env).load()
            if op == '&&':
                a = self.ev(n['inner'][0], env)
                if not self.truth(a):
                    return False
                return self.truth(self.ev(n['inner'][1], env))
            if op == '||':
                a = self.ev(n['inner'][0], env)
                if self.truth(a):
                    return True
                return self.truth(self.ev(n['inner'][1], env))
            if op == ',':
                self.ev(n['inner'][0], env)
                return self.ev(n['inner'][1], env)
            return self.binop(op, self.ev(n['inner'][0], env), self.ev(n['inner'][1], env))
        if k == 'CompoundAssignOperator':
            return self.assign(n, env).load()
        if k == 'ConditionalOperator':
            c, a, b = n['inner']
            return self.ev(a, env) if self.truth(self.ev(c, env)) else self.ev(b, env)
        if k == 'CXXOperatorCallExpr':
            r = self.opcall(n, env, want_ref=False)
            return r
        if k == 'CXXMemberCallExpr':
            return self.membercall(n, env)
        if k == 'CallExpr':
            return self.freecall(n, env)
        if k == 'CXXConstructExpr' or k == 'CXXTemporaryObjectExpr':
            t = _strip(n['type'].get('desugaredQualType', n['type']['qualType']))
            args = [a for a in n.get('inner', []) if a['kind'] != 'CXXDefaultArgExpr']
            if t in self.classes:
                return self.construct(t, [self.ev(a, env) for a in args])
            if len(args) == 1:
                return clone(self.ev(args[0], env))       # copy / converting construction of a std type
            if not args:
                d = self.default(n['type'].get('desugaredQualType', n['type']['qualType']))
                if d is UNINIT:
                    if 'string' in t:
                        return ''
                    raise CxxUnsupported('default construction of ' + t)
                return d
            raise CxxUnsupported('construction of %s with %d arguments' % (t, len(args)))
        if k == 'CXXNewExpr':
            if n.get('isArray'):
                size = self.ev(n['inner'][0], env)
                if isinstance(size, Sym):
                    raise CxxUnsupported('symbolic array size')
                if size < 0:
                    raise MemoryFault('new[] with negative size')
                return Arr(int(size), 'new %s' % n['type']['qualType'])
            ce = [c for c in n.get('inner', []) if c['kind'] == 'CXXConstructExpr']
            if not ce:
                raise CxxUnsupported('new of a non-class type')
            return self.ev(ce[0], env)
        if k == 'CXXDeleteExpr':
            p = self.ev(n['inner'][0], env)
            if p is None:
                return None
            if isinstance(p, Arr):
                if p.freed:
                    raise MemoryFault('double delete[]')
                p.freed = True
                return None
            if isinstance(p, CObj):
                if p._freed:
                    raise MemoryFault('double delete of a %s' % p._cls)
                d = self.find_method(p._cls, '~' + p._cls)
                if d is not None:
                    self.call(d, p, [])
                object.__setattr__(p, '_freed', True)
                return None
            raise CxxUnsupported('delete of %r' % type(p))
        if k == 'CXXThrowExpr':
            e = n['inner'][0] if n.get('inner') else None
            msg, typ = '', 'exception'
            if e is not None:
                typ = _strip(e['type'].get('desugaredQualType', e['type']['qualType']))
                lits = []
                self._strings(e, lits)
                msg = lits[0] if lits else ''
            raise CxxThrow(typ, msg)
        if k == 'CXXDefaultArgExpr':
            return None
        raise CxxUnsupported('expression kind ' + k)

    def _strings(self, n, out):
        if n.get('kind') == 'StringLiteral':
            v = n['value']
            out.append(json.loads(v) if v.startswith('"') else v)
        for c in n.get('inner', []):
            self._strings(c, out)

    # -- std:: operators
    def opcall(self, n, env, want_ref):
        callee = n['inner'][0]
        while callee['kind'] != 'DeclRefExpr':
            callee = callee['inner'][0]
        name = callee['referencedDecl']['name']
        args = n['inner'][1:]
        wrap = (lambda v: Const(v)) if want_ref else (lambda v: v)
        if name == 'operator[]':
            cont = self.ev(args[0], env)
            key = self.ev(args[1], env)
            if isinstance(cont, Vec):
                r = Ref(cont, self.as_index(key), 'vector element')
                if want_ref:
                    r.load()                     # bounds / initialisation check now (operator[] UB otherwise)
                    return r
                return r.load()
            if isinstance(cont, CMap):
                if key not in cont.d:
                    t = n['type'].get('desugaredQualType', n['type']['qualType'])
                    cont.d[key] = Vec()
                r = Ref(cont.d, key, 'map value')
                return r if want_ref else r.load()
            raise CxxUnsupported('operator[] on %r' % type(cont))
        if name == 'operator=':
            ref = self.lv(args[0], env)
            v = clone(self.ev(args[1], env))
            cur = ref.load() if not isinstance(ref, Const) else ref.v
            if isinstance(cur, Iter) and isinstance(v, Iter):
                cur.cont, cur.pos = v.cont, v.pos
            elif isinstance(cur, Vec) and isinstance(v, Vec):
                cur[:] = v
            else:
                ref.store(v)
            return ref if want_ref else ref.load()
        if name in ('operator++', 'operator--'):
            it = self.ev(args[0], env)
            if not isinstance(it, Iter):
                raise CxxUnsupported('%s on %r' % (name, type(it)))
            old = it.clone()
            d = 1 if name == 'operator++' else -1
            if d == 1 and it.pos >= len(it.view()):
                raise MemoryFault('increment of an end() iterator')
            it.pos += d
            res = old if len(args) > 1 else it
            return wrap(res)
        if name == 'operator*':
            it = self.ev(args[0], env)
            return wrap(it.deref())
        if name == 'operator->':
            it = self.ev(args[0], env)
            return wrap(it.deref())
        if name in ('operator!=', 'operator=='):
            a, b = self.ev(args[0], env), self.ev(args[1], env)
            r = self.binop('==', a, b)
            return wrap(r if name == 'operator==' else (not r))
        raise CxxUnsupported('overloaded ' + name)

    def membercall(self, n, env):
        me = n['inner'][0]
        while me['kind'] != 'MemberExpr':
            me = me['inner'][0]
        name = me['name']
        obj = self.ev(me['inner'][0], env)
        args = [a for a in n['inner'][1:] if a['kind'] != 'CXXDefaultArgExpr']
        if isinstance(obj, CObj):
            obj._check()
            m = self.find_method(obj._cls, name)
            if m is None:
                raise CxxUnsupported('method %s::%s has no body in the AST' % (obj._cls, name))
            return self.call(m, obj, [clone(self.ev(a, env)) for a in args])
        av = [self.ev(a, env) for a in args]
        if isinstance(obj, Vec):
            if name == 'push_back':
                obj.append(clone(av[0]))
                return None
            if name == 'size':
                return len(obj)
            if name == 'clear':
                del obj[:]
                return None
            if name == 'empty':
                return len(obj) == 0
            if name == 'back':
                if not obj:
                    raise MemoryFault('back() of an empty vector')
                return obj[-1]
            if name == 'front':
                if not obj:
                    raise MemoryFault('front() of an empty vector')
                return obj[0]
            if name == 'at':
                i = self.as_index(av[0])
                if not (0 <= i < len(obj)):
                    raise CxxThrow('std::out_of_range', 'vector::at')
                return obj[i]
            if name == 'begin':
                return Iter(obj, 0)
            if name == 'end':
                return Iter(obj, len(obj))
            if name == 'pop_back':
                if not obj:
                    raise MemoryFault('pop_back() of an empty vector')
                obj.pop()
                return None
            if name == 'resize':
                k = self.as_index(av[0])
                fill = av[1] if len(av) > 1 else 0
                while len(obj) > k:
                    obj.pop()
                while len(obj) < k:
                    obj.append(clone(fill))
                return None
            if name == 'reserve':
                return None
            if name == 'assign':
                k = self.as_index(av[0])
                obj[:] = [clone(av[1]) for _ in range(k)]
                return None
            if name == 'swap':
                other = av[0]
                tmp = list(obj)
                obj[:] = list(other)
                other[:] = tmp
                return None
        if isinstance(obj, CSet):
            if name == 'insert':
                if not any(o is av[0] for o in obj.items):
                    obj.items.append(av[0])
                return None
            if name == 'erase':
                k = len(obj.items)
                obj.items = [o for o in obj.items if o is not av[0]]
                return k - len(obj.items)
            if name == 'size':
                return len(obj.items)
            if name == 'empty':
                return not obj.items
            if name == 'begin':
                return Iter(obj, 0)
            if name == 'end':
                return Iter(obj, len(obj.items))
            if name == 'clear':
                obj.items = []
                return None
            if name == 'count':
                return int(any(o is av[0] for o in obj.items))
            if name == 'find':
                v = obj.ordered()
                for i, o in enumerate(v):
                    if o is av[0]:
                        return Iter(obj, i)
                return Iter(obj, len(v))
        if isinstance(obj, CMap):
            if name == 'size':
                return len(obj.d)
            if name == 'empty':
                return not obj.d
            if name == 'begin':
                return Iter(obj, 0)
            if name == 'end':
                return Iter(obj, len(obj.d))
            if name == 'clear':
                obj.d.clear()
                return None
            if name == 'erase':
                return 1 if obj.d.pop(av[0], None) is not None else 0
            if name == 'count':
                return int(av[0] in obj.d)
            if name == 'find':
                ks = sorted(obj.d, key=lambda o: o._addr)
                return Iter(obj, ks.index(av[0]) if av[0] in obj.d else len(ks))
        if isinstance(obj, str) and name in ('c_str', 'what'):
            return obj
        raise CxxUnsupported('call of %s on %s' % (name, type(obj).__name__))

    def freecall(self, n, env):
        callee = n['inner'][0]
        while callee['kind'] != 'DeclRefExpr':
            callee = callee['inner'][0]
        name = callee['referencedDecl']['name']
        args = [self.ev(a, env) for a in n['inner'][1:]]
        if name in self.functions:
            return self.call(self.functions[name], None, args)
        for a in args:
            if a is UNINIT:
                raise MemoryFault('uninitialised argument to ' + name)
        if name == 'pow':
            return symx.sym_pow(args[0], args[1])
        if name in ('exp', 'log', 'sin', 'cos', 'tan', 'asin', 'acos', 'atan', 'sqrt'):
            return symx.sym_math(name, args[0])
        if name in ('abs', 'fabs'):
            return abs(args[0])
        raise CxxUnsupported('call of ' + name)


# ---------------------------------------------------------------------------------------------------------------- SWIG layer
class CxxEvaluator:
    """what wntr.sim.aml.evaluator.Evaluator (SWIG) offers to aml.py, backed by the interpreted C++"""
    program = None

    def __init__(self):
        object.__setattr__(self, '_p', type(self).program)
        object.__setattr__(self, '_o', self._p.construct('Evaluator', []))

    def _call(self, name, *args):
        m = self._p.find_method('Evaluator', name)
        if m is None:
            raise CxxUnsupported('Evaluator::%s has no body in the AST' % name)
        try:
            return self._p.call(m, self._o, list(args))
        except CxxThrow as e:
            if e.typ == 'StructureException':
                raise RuntimeError('Evaluator error: ' + e.msg)
            raise RuntimeError('unkown exception')

    @property
    def nnz(self):
        return self._o.nnz

    def __getattr__(self, name):
        if name in ('add_var', 'add_param', 'add_float', 'add_constraint', 'add_if_else_constraint', 'remove_var', 'remove_param', 'remove_float', 'remove_constraint',
                    'remove_if_else_constraint', 'set_structure', 'remove_structure'):
            return lambda *a: self._call(name, *a)
        raise AttributeError(name)

    @staticmethod
    def _out(arr):
        import numpy as np
        out = np.empty(len(arr.cells), dtype=object)
        for i, v in enumerate(arr.cells):
            out[i] = v
        return out

    def evaluate(self, n):
        a = Arr(int(n), 'array_out[%d]' % n)
        self._call('evaluate', a, int(n))
        return self._out(a)

    def evaluate_csr_jacobian(self, n1, n2, n3):
        a, b, c = Arr(int(n1), 'values_array_out[%d]' % n1), Arr(int(n2), 'col_ndx_array_out[%d]' % n2), Arr(int(n3), 'row_nnz_array_out[%d]' % n3)
        self._call('evaluate_csr_jacobian', a, int(n1), b, int(n2), c, int(n3))
        return self._out(a), self._out(b), self._out(c)

    def get_x(self, n):
        a = Arr(int(n), 'array_out[%d]' % n)
        self._call('get_x', a, int(n))
        return self._out(a)

    def load_var_values_from_x(self, x):
        a = Arr(len(x), 'array_in[%d]' % len(x))
        a.cells = list(x)
        self._call('load_var_values_from_x', a, len(x))

"""Helpers shared by the property modules: one builder for the symbolic harness and for the float replay.

A harness declares its inputs through a `Vars` object.  Under the explorer (`SymVars`) each input is a
z3 constant with its documented range assumed; in the replay process (`ConcVars`) the same names are
looked up in the counterexample file, so the model under test is constructed by exactly the same code in
both worlds - only the leaves differ (proxies vs floats)."""
import z3

from . import symx
from .symx import Sym, real, rv


class SymVars:
    symbolic = True

    def __init__(self, c):
        self.c = c
        self.names = {}

    def real(self, name, lo=None, hi=None, ne=None):
        s = self.c.real(name)
        self.names[name] = s
        if lo is not None:
            self.c.assume(s >= lo)
        if hi is not None:
            self.c.assume(s <= hi)
        if ne is not None:
            self.c.assume(s != ne)
        return s

    def pos(self, name, lo=None, hi=None):
        s = self.c.real(name)
        self.names[name] = s
        self.c.assume(s > 0)
        if lo is not None:
            self.c.assume(s >= lo)
        if hi is not None:
            self.c.assume(s <= hi)
        return s

    def int(self, name, lo=None, hi=None):
        s = self.c.int(name)
        self.names[name] = s
        if lo is not None:
            self.c.assume(s >= lo)
        if hi is not None:
            self.c.assume(s <= hi)
        return s

    def bool(self, name):
        s = self.c.bool(name)
        self.names[name] = s
        return s

    def choice(self, name, options):
        return self.c.choice(name, options)

    def witness(self, model, **extra):
        out = {}
        for n, s in self.names.items():
            out[n] = symx.model_value(model, s)
        for n, v in self.c.choices:
            out['choice:' + n] = v if isinstance(v, (int, float, str, bool)) or v is None else str(v)
        out.update(extra)
        return out


class ConcVars:
    symbolic = False

    def __init__(self, values):
        self.values = values

    def real(self, name, lo=None, hi=None, ne=None):
        return float(self.values[name])

    pos = real

    def int(self, name, lo=None, hi=None):
        return int(self.values[name])

    def bool(self, name):
        return bool(self.values[name])

    def choice(self, name, options):
        v = self.values['choice:' + name]
        for o in options:
            if o == v or str(o) == v:
                return o
        raise KeyError('choice %s=%r not among options' % (name, v))


def select(lst, idx):
    """lst[idx] for a concrete or symbolic integer index (ite chain)"""
    if not isinstance(idx, Sym):
        return lst[int(idx)]
    out = real(lst[-1])
    for i in range(len(lst) - 2, -1, -1):
        out = z3.If(idx.e == i, real(lst[i]), out)
    return Sym(out)


def close(a, b, rel=1e-9, abs_=1e-12):
    return abs(a - b) <= rel * max(abs(a), abs(b)) + abs_


def eq_claim(a, b, rel=None, abs_=None):
    """z3 claim a == b (exact) or |a-b| <= rel*|b| + abs"""
    ta, tb = real(a), real(b)
    if rel is None and abs_ is None:
        return ta == tb
    tol = rv(abs_ or 0)
    if rel:
        tol = tol + rv(rel) * symx.zabs(tb)
    return symx.zabs(ta - tb) <= tol


import re as _re
_TOKEN = _re.compile(r'987654321\d{8}')


def compare(a, b, path='', tol=None):
    """structural comparison of two nested dict/list/tuple/leaf structures whose numeric leaves may be proxies.
    returns (mismatches, claims): mismatches = list of 'path: why' decided concretely; claims = list of (path, z3 Bool)
    that must hold for the structures to be equal"""
    mism, claims = [], []
    _cmp(a, b, path, mism, claims, tol)
    return mism, claims


def _isnum(x):
    import numpy as np
    return isinstance(x, (int, float, np.integer, np.floating)) and not isinstance(x, bool)


def _cmp(a, b, path, mism, claims, tol):
    import numpy as np
    if isinstance(a, np.ndarray):
        a = list(a)
    if isinstance(b, np.ndarray):
        b = list(b)
    if isinstance(a, dict) and isinstance(b, dict):
        for k in a:
            if k not in b:
                mism.append('%s/%s: missing on the right' % (path, k))
        for k in b:
            if k not in a:
                mism.append('%s/%s: missing on the left' % (path, k))
        for k in a:
            if k in b:
                _cmp(a[k], b[k], '%s/%s' % (path, k), mism, claims, tol)
        return
    if isinstance(a, (list, tuple)) and isinstance(b, (list, tuple)):
        if len(a) != len(b):
            mism.append('%s: length %d vs %d' % (path, len(a), len(b)))
            return
        for i, (x, y) in enumerate(zip(a, b)):
            _cmp(x, y, '%s[%d]' % (path, i), mism, claims, tol)
        return
    if isinstance(a, (Sym, symx.SymB)) or isinstance(b, (Sym, symx.SymB)):
        if isinstance(a, symx.SymB) or isinstance(b, symx.SymB):
            claims.append((path, symx._boolterm(a) == symx._boolterm(b)))
            return
        if not ((isinstance(a, Sym) or _isnum(a)) and (isinstance(b, Sym) or _isnum(b))):
            mism.append('%s: %r vs %r' % (path, a, b))
            return
        claims.append((path, eq_claim(a, b, *(tol or (None, None)))))
        return
    if _isnum(a) and _isnum(b):
        if a != b and not (a != a and b != b):
            if tol and close(a, b, tol[0] or 0, tol[1] or 0):
                return
            mism.append('%s: %r vs %r' % (path, a, b))
        return
    if isinstance(a, str) and isinstance(b, str) and a != b and _TOKEN.search(a) and _TOKEN.search(b):
        # text that embeds serialisation tokens (control conditions/actions): same skeleton, token values equal
        ta, tb = _TOKEN.findall(a), _TOKEN.findall(b)
        if _TOKEN.sub('#', a) != _TOKEN.sub('#', b) or len(ta) != len(tb):
            mism.append('%s: %r vs %r' % (path, _TOKEN.sub('<num>', a), _TOKEN.sub('<num>', b)))
            return
        for x, y in zip(ta, tb):
            hx, hy = symx.TOKENS.lookup(x), symx.TOKENS.lookup(y)
            if hx is None or hy is None or hx[1] != hy[1]:
                mism.append('%s: number formatted differently (%r vs %r)' % (path, hx and hx[1], hy and hy[1]))
                return
            claims.append((path, real(hx[0]) == real(hy[0])))
        return
    if a != b:
        mism.append('%s: %r vs %r' % (path, a, b))

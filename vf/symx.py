"""E1 `symx`: symbolic execution of real Python code by z3 value proxies.

A `Sym` wraps a z3 Int/Real term and implements Python's numeric protocol, so the unmodified
bytecode of WNTR computes z3 terms when it is handed proxies.  `bool()` of a symbolic condition is a
branch point; `explore()` re-executes the harness with a decision prefix (DART style) until the
path tree is exhausted or a budget is hit.  Nothing here knows about WNTR.
"""
import math
import re
import time
import itertools
from fractions import Fraction

import numpy as np
import z3


# ------------------------------------------------------------------------------------------------
# statistics shared by all engines (read by vf.report)
# ------------------------------------------------------------------------------------------------
class Stats:
    def __init__(self):
        self.reset()

    def reset(self):
        self.queries = 0
        self.unsat = 0
        self.sat = 0
        self.unknown = 0
        self.solver_s = 0.0
        self.feas_queries = 0
        self.feas_s = 0.0
        self.paths = 0
        self.aborted_paths = 0

    def as_dict(self):
        return dict(self.__dict__)


STATS = Stats()


class PathAbort(BaseException):
    """The current path is infeasible (assume failed) - drop it silently."""


class Inconclusive(BaseException):
    """A feasibility query came back unknown or a budget was hit: no verdict for this harness."""


class HarnessError(BaseException):
    """The encoder met a construct it does not support.  Never a verdict."""


# ------------------------------------------------------------------------------------------------
# z3 helpers
# ------------------------------------------------------------------------------------------------
def _is_num(x):
    return isinstance(x, (int, float, np.integer, np.floating, Fraction)) and not isinstance(x, (bool, np.bool_))


def rv(x):
    """exact z3 Real value of a Python number"""
    if isinstance(x, (bool, np.bool_)):
        return z3.RealVal(1 if x else 0)
    if isinstance(x, (int, np.integer)):
        return z3.RealVal(int(x))
    if isinstance(x, Fraction):
        return z3.RealVal(str(x))
    x = float(x)
    if math.isnan(x) or math.isinf(x):
        raise HarnessError('non-finite float constant %r reached the encoder' % x)
    if x == int(x) and abs(x) < 1e18:
        return z3.RealVal(int(x))
    return z3.RealVal(str(Fraction(x)))


def term(x):
    """z3 term of a Sym / SymB / Python number (ints -> Int sort, floats -> Real sort)."""
    if isinstance(x, Sym):
        return x.e
    if isinstance(x, SymB):
        return x.e
    if isinstance(x, (bool, np.bool_)):
        return z3.BoolVal(bool(x))
    if isinstance(x, (int, np.integer)):
        return z3.IntVal(int(x))
    if isinstance(x, (float, np.floating, Fraction)):
        return rv(x)
    if z3.is_expr(x):
        return x
    raise HarnessError('cannot make a z3 term of %r (%s)' % (x, type(x)))


def real(x):
    """z3 Real-sorted term of x"""
    t = term(x)
    if z3.is_int(t):
        return z3.ToReal(t)
    if z3.is_bool(t):
        return z3.If(t, z3.RealVal(1), z3.RealVal(0))
    return t


def _coerce(a, b):
    """two z3 arithmetic terms of the same sort (Int,Int) or (Real,Real)"""
    ta, tb = term(a), term(b)
    if z3.is_bool(ta):
        ta = z3.If(ta, z3.IntVal(1), z3.IntVal(0))
    if z3.is_bool(tb):
        tb = z3.If(tb, z3.IntVal(1), z3.IntVal(0))
    if z3.is_int(ta) and z3.is_int(tb):
        return ta, tb, True
    if z3.is_int(ta):
        ta = z3.ToReal(ta)
    if z3.is_int(tb):
        tb = z3.ToReal(tb)
    return ta, tb, False


def _simp(e):
    return z3.simplify(e)


def _resolved_quotient(a, m):
    """If the path condition forces  a div m  (m a positive numeral) to one value, return that numeral: keeps time arithmetic
    such as  t - t % H  linear instead of stacking mod terms.  Sound: the replacement is implied by the path condition."""
    c = Ctx.cur
    if c is None or not c.resolve_quotients or z3.is_int_value(_simp(a)):
        return None
    try:
        if c.solver.check() != z3.sat:
            return None
        v = c.solver.model().eval(a / m, model_completion=True)
        if not z3.is_int_value(v):
            return None
        STATS.feas_queries += 2
        if c.solver.check(a / m != v) == z3.unsat:
            return v
    except z3.Z3Exception:
        return None
    return None


def as_int_term(t):
    """Int-sorted term equal to the Real-sorted term t if t is structurally integer valued (to_real(i), integer numerals,
    sums / differences / products of such), else None"""
    if z3.is_int(t):
        return t
    if z3.is_rational_value(t):
        fr = t.as_fraction()
        return z3.IntVal(int(fr)) if fr.denominator == 1 else None
    if not z3.is_app(t):
        return None
    k = t.decl().kind()
    if k == z3.Z3_OP_TO_REAL:
        return t.arg(0)
    if k in (z3.Z3_OP_ADD, z3.Z3_OP_SUB, z3.Z3_OP_MUL, z3.Z3_OP_UMINUS):
        parts = [as_int_term(c) for c in t.children()]
        if any(p is None for p in parts):
            return None
        if k == z3.Z3_OP_ADD:
            return z3.Sum(parts) if len(parts) > 1 else parts[0]
        if k == z3.Z3_OP_SUB:
            out = parts[0]
            for p in parts[1:]:
                out = out - p
            return out
        if k == z3.Z3_OP_UMINUS:
            return -parts[0]
        out = parts[0]
        for p in parts[1:]:
            out = out * p
        return out
    return None


# ------------------------------------------------------------------------------------------------
# exploration context
# ------------------------------------------------------------------------------------------------
_PATH_IDS = itertools.count()


class Ctx:
    cur = None

    def __init__(self, decisions, feas_timeout_ms=5000, deadline=None):
        self.decisions = decisions  # list of [taken, other_done]
        self.pos = 0
        self.pc = []
        self.side = []  # guarded definitional constraints (sqrt, pow axioms, token rounding ...)
        self.solver = z3.Solver()
        self.solver.set('timeout', feas_timeout_ms)
        self.deadline = deadline
        self.fresh_counter = itertools.count()
        self.path_id = next(_PATH_IDS)
        self.pow_apps = {}  # exponent -> list of argument terms
        self.names = {}
        self.notes = []
        self.choices = []  # record of concrete choices on this path (name, value)
        self.concretize_divisors = False  # symbolic Int divisors of // and % are forked over their values
        self._model = None   # a model of side + pc, when one is known
        self.assume_fractional_floors = False   # floor(x) of a symbolic real assumes x is not an exact integer
        self.resolve_quotients = False          # x // m, x % m with numeral m: use the quotient's value when the path condition forces it
        self.plain_pow = False                  # x ** c (non-integer c) and symbolic exponents as uninterpreted functions (congruence only)
        self._qmodel = None

    # -- symbolic inputs (same name => same constant on every re-execution)
    def real(self, name):
        return Sym(z3.Real(name))

    def int(self, name):
        return Sym(z3.Int(name))

    def bool(self, name):
        return SymB(z3.Bool(name))

    def fresh(self, prefix, sort='real'):
        n = '%s!%d!p%d' % (prefix, next(self.fresh_counter), self.path_id)
        return z3.Real(n) if sort == 'real' else z3.Int(n)

    def choice(self, name, options):
        """fork concretely over a finite list of options"""
        options = list(options)
        if len(options) == 1:
            self.choices.append((name, options[0]))
            return options[0]
        idx = z3.Int('choice:' + name)
        self.add_side(z3.And(idx >= 0, idx < len(options)))
        for i, o in enumerate(options[:-1]):
            if self.branch(idx == i):
                self.choices.append((name, o))
                return o
        self.choices.append((name, options[-1]))
        return options[-1]

    # -- constraints
    def add_side(self, c):
        self.side.append(c)
        self.solver.add(c)
        self._model = None

    def assume(self, cond):
        c = term(cond)
        c = _simp(c)
        if z3.is_false(c):
            raise PathAbort()
        if z3.is_true(c):
            return
        if self._model_says(c) is not True:
            r = self._check(c)
            if r is False:
                raise PathAbort()
            self._model = self._qmodel
        self.pc.append(c)
        self.solver.add(c)

    def _check(self, c):
        if self.deadline is not None and time.time() > self.deadline:
            raise Inconclusive('time budget exhausted during exploration')
        t0 = time.time()
        r = self.solver.check(c)
        dt = time.time() - t0
        STATS.feas_queries += 1
        STATS.feas_s += dt
        if r == z3.sat:
            self._qmodel = self.solver.model()
            return True
        if r == z3.unsat:
            return False
        raise Inconclusive('feasibility query unknown: %s' % self.solver.reason_unknown())

    def _model_says(self, c):
        """value of c under the cached model of the current path condition (None if no model / undetermined)"""
        m = self._model
        if m is None:
            return None
        try:
            v = m.eval(c, model_completion=True)
        except z3.Z3Exception:
            return None
        if z3.is_true(v):
            return True
        if z3.is_false(v):
            return False
        return None

    def branch(self, cond):
        c = _simp(term(cond))
        if z3.is_true(c):
            return True
        if z3.is_false(c):
            return False
        if self.pos < len(self.decisions):
            taken = self.decisions[self.pos][0]
            self.pos += 1
            self._model = None      # replayed literals are not checked against the cached model
        else:
            # one side is often witnessed by the model of the path so far: only the other side needs a query
            val = self._model_says(c)
            model_t = model_f = None
            if val is True:
                can_t, model_t = True, self._model
                can_f = self._check(z3.Not(c))
                if can_f:
                    model_f = self._qmodel
            elif val is False:
                can_f, model_f = True, self._model
                can_t = self._check(c)
                if can_t:
                    model_t = self._qmodel
            else:
                can_t = self._check(c)
                if can_t:
                    model_t = self._qmodel
                can_f = self._check(z3.Not(c))
                if can_f:
                    model_f = self._qmodel
            if can_t and can_f:
                self.decisions.append([True, False])
                taken = True
            elif can_t:
                self.decisions.append([True, True])
                taken = True
            elif can_f:
                self.decisions.append([False, True])
                taken = False
            else:
                raise PathAbort()
            self._model = model_t if taken else model_f
            self.pos += 1
        lit = c if taken else z3.Not(c)
        self.pc.append(lit)
        self.solver.add(lit)
        return taken

    def concretize(self, e, limit=4096):
        """fork over the feasible concrete values of an Int term (bounded by the path condition)"""
        es = _simp(e)
        if z3.is_int_value(es):
            return es.as_long()
        for _ in range(limit):
            if self.pos < len(self.decisions):
                # replaying: the value tried at this decision was recorded with it
                v = self.decisions[self.pos][2]
            else:
                t0 = time.time()
                r = self.solver.check()
                STATS.feas_queries += 1
                STATS.feas_s += time.time() - t0
                if r == z3.unsat:
                    raise PathAbort()
                if r != z3.sat:
                    raise Inconclusive('concretize: solver unknown')
                v = self.solver.model().eval(es, model_completion=True).as_long()
            if self._branch_val(es == v, v):
                return v
        raise Inconclusive('concretize: more than %d values' % limit)

    def _branch_val(self, c, v):
        """branch(c) that remembers the concrete value v tried at this decision (for replay)"""
        if self.pos < len(self.decisions):
            taken = self.decisions[self.pos][0]
            self.pos += 1
        else:
            can_f = self._check(z3.Not(c))
            self.decisions.append([True, not can_f, v])
            taken = True
            self.pos += 1
        lit = c if taken else z3.Not(c)
        self.pc.append(lit)
        self.solver.add(lit)
        self._model = None
        return taken

    # -- nonlinear helpers
    def sqrt(self, x):
        x = real(x)
        xs = _simp(x)
        if z3.is_rational_value(xs):
            v = float(xs.as_fraction())
            if v >= 0:
                r = math.sqrt(v)
                fr = Fraction(r)
                if fr * fr == xs.as_fraction():
                    return Sym(rv(r))
        s = self.fresh('sqrt')
        self.add_side(z3.Implies(x >= 0, z3.And(s >= 0, s * s == x)))
        return Sym(s)

    def pow(self, x, e):
        """x ** e for a concrete non-integer exponent e: uninterpreted function with axioms"""
        e = float(e)
        f = z3.Function('pow_%r' % e, z3.RealSort(), z3.RealSort())
        x = real(x)
        xs = _simp(x)
        if z3.is_rational_value(xs):
            v = float(xs.as_fraction())
            if v > 0 or (v == 0 and e > 0):
                return Sym(rv(math.pow(v, e)))
        self.pow_apps.setdefault(e, [])
        apps = self.pow_apps[e]
        # axioms for the new application relative to existing ones
        ax = [z3.Implies(x == 0, f(x) == 0) if e > 0 else z3.BoolVal(True),
              z3.Implies(x == 1, f(x) == 1),
              z3.Implies(x > 0, f(x) > 0)]
        for y in apps:
            if e > 0:
                ax.append(z3.Implies(z3.And(x >= 0, y >= 0), z3.And((x < y) == (f(x) < f(y)), (x == y) == (f(x) == f(y)))))
            else:
                ax.append(z3.Implies(z3.And(x > 0, y > 0), z3.And((x < y) == (f(x) > f(y)), (x == y) == (f(x) == f(y)))))
        apps.append(x)
        for a in ax:
            self.add_side(a)
        return Sym(f(x))

    def constraints(self):
        return list(self.side) + list(self.pc)


def ctx():
    if Ctx.cur is None:
        raise HarnessError('symbolic value used outside an exploration')
    return Ctx.cur


# ------------------------------------------------------------------------------------------------
# proxies
# ------------------------------------------------------------------------------------------------
class SymB:
    __slots__ = ('e',)

    def __init__(self, e):
        self.e = e

    def __bool__(self):
        return ctx().branch(self.e)

    def __and__(self, o):
        return SymB(z3.And(self.e, _boolterm(o)))

    __rand__ = __and__

    def __or__(self, o):
        return SymB(z3.Or(self.e, _boolterm(o)))

    __ror__ = __or__

    def __invert__(self):
        return SymB(z3.Not(self.e))

    def __xor__(self, o):
        return SymB(z3.Xor(self.e, _boolterm(o)))

    __rxor__ = __xor__

    def __eq__(self, o):
        if isinstance(o, (SymB, bool, np.bool_)):
            return SymB(self.e == _boolterm(o))
        return Sym(z3.If(self.e, z3.IntVal(1), z3.IntVal(0))) == o

    def __ne__(self, o):
        r = self.__eq__(o)
        return ~r if isinstance(r, SymB) else (not r)

    def __hash__(self):
        return id(self)

    def __repr__(self):
        return 'SymB(%s)' % self.e

    # arithmetic on booleans (True == 1)
    def _num(self):
        return Sym(z3.If(self.e, z3.IntVal(1), z3.IntVal(0)))

    def __add__(self, o): return self._num() + o
    def __radd__(self, o): return o + self._num()
    def __mul__(self, o): return self._num() * o
    def __rmul__(self, o): return o * self._num()
    def __sub__(self, o): return self._num() - o
    def __rsub__(self, o): return o - self._num()


def _boolterm(o):
    if isinstance(o, SymB):
        return o.e
    if isinstance(o, (bool, np.bool_)):
        return z3.BoolVal(bool(o))
    if isinstance(o, Sym):
        return o.e != 0
    if z3.is_expr(o):
        return o
    return z3.BoolVal(bool(o))


_UFUNC = {}
_PICKLED = []


def _unpickle_sym(k):
    return _PICKLED[k]


class Sym:
    """symbolic int or float"""
    __slots__ = ('e',)
    __array_priority__ = 1000

    def __init__(self, e):
        self.e = e

    @property
    def is_int(self):
        return z3.is_int(self.e)

    # -- arithmetic
    def _bin(self, o, f, swap=False):
        if isinstance(o, np.ndarray):
            return NotImplemented
        if isinstance(o, SymB):
            o = o._num()
        if not (isinstance(o, Sym) or _is_num(o) or isinstance(o, (bool, np.bool_))):
            return NotImplemented
        a, b, _ = _coerce(self, o)
        if swap:
            a, b = b, a
        return Sym(_simp(f(a, b)))

    def __add__(self, o): return self._bin(o, lambda a, b: a + b)
    def __radd__(self, o): return self._bin(o, lambda a, b: a + b, True)
    def __sub__(self, o): return self._bin(o, lambda a, b: a - b)
    def __rsub__(self, o): return self._bin(o, lambda a, b: a - b, True)
    def __mul__(self, o): return self._bin(o, lambda a, b: a * b)
    def __rmul__(self, o): return self._bin(o, lambda a, b: a * b, True)

    def __truediv__(self, o):
        if isinstance(o, np.ndarray) or not (isinstance(o, (Sym, SymB)) or _is_num(o)):
            return NotImplemented
        return Sym(_simp(real(self) / real(o)))

    def __rtruediv__(self, o):
        if isinstance(o, np.ndarray) or not (isinstance(o, (Sym, SymB)) or _is_num(o)):
            return NotImplemented
        return Sym(_simp(real(o) / real(self)))

    @staticmethod
    def _floordiv(a, b):
        a, b, ints = _coerce(a, b)
        if not ints:
            ia, ib = as_int_term(a), as_int_term(b)
            if ia is not None and ib is not None:   # integer-valued reals (float(sim_time) % H): integer arithmetic, then back to Real
                return z3.ToReal(Sym._floordiv(ia, ib))
        if ints:
            bs = _simp(b)
            if not z3.is_int_value(bs) and Ctx.cur is not None and Ctx.cur.concretize_divisors:
                bs = b = z3.IntVal(Ctx.cur.concretize(bs))  # fork over the divisor's feasible values: keeps the arithmetic linear
            if z3.is_int_value(bs) and bs.as_long() > 0:
                q = _resolved_quotient(a, bs)
                return q if q is not None else a / b
            return z3.If(b > 0, a / b, (-a) / (-b))
        return z3.ToReal(z3.ToInt(a / b))

    def __floordiv__(self, o):
        if not (isinstance(o, Sym) or _is_num(o)):
            return NotImplemented
        return Sym(_simp(Sym._floordiv(self, o)))

    def __rfloordiv__(self, o):
        if not (isinstance(o, Sym) or _is_num(o)):
            return NotImplemented
        return Sym(_simp(Sym._floordiv(o, self)))

    @staticmethod
    def _mod(a, b):
        ta, tb, ints = _coerce(a, b)
        if not ints:
            ia, ib = as_int_term(ta), as_int_term(tb)
            if ia is not None and ib is not None:
                return z3.ToReal(Sym._mod(ia, ib))
        if ints:
            bs = _simp(tb)
            if not z3.is_int_value(bs) and Ctx.cur is not None and Ctx.cur.concretize_divisors:
                bs = tb = z3.IntVal(Ctx.cur.concretize(bs))
            if z3.is_int_value(bs) and bs.as_long() > 0:
                q = _resolved_quotient(ta, bs)
                return ta - bs * q if q is not None else ta % tb
        return ta - tb * Sym._floordiv(ta, tb)

    def __mod__(self, o):
        if not (isinstance(o, Sym) or _is_num(o)):
            return NotImplemented
        return Sym(_simp(Sym._mod(self, o)))

    def __rmod__(self, o):
        if not (isinstance(o, Sym) or _is_num(o)):
            return NotImplemented
        return Sym(_simp(Sym._mod(o, self)))

    def __divmod__(self, o):
        return self // o, self % o

    def __rdivmod__(self, o):
        return o // self, o % self

    def __neg__(self): return Sym(_simp(-self.e))
    def __pos__(self): return self

    def __abs__(self):
        return Sym(_simp(z3.If(self.e >= 0, self.e, -self.e)))

    def __pow__(self, k, mod=None):
        if isinstance(k, Sym):
            ks = _simp(k.e)
            if z3.is_int_value(ks):
                k = ks.as_long()
            elif z3.is_rational_value(ks):
                k = float(ks.as_fraction())
            elif Ctx.cur is not None and Ctx.cur.plain_pow:
                return Sym(uf2('pow')(real(self), real(k)))
            else:
                raise HarnessError('symbolic exponent')
        if isinstance(k, (np.integer,)):
            k = int(k)
        if isinstance(k, (float, np.floating)) and float(k) == int(k) and abs(k) < 64:
            r = self.__pow__(int(k))
            return Sym(real(r)) if isinstance(r, Sym) else float(r)
        if isinstance(k, int):
            if k == 0:
                return 1
            base = self.e
            if k < 0:
                base = real(self)
            out = base
            for _ in range(abs(k) - 1):
                out = out * base
            if k < 0:
                out = 1 / out
            return Sym(_simp(out))
        k = float(k)
        if Ctx.cur is not None and Ctx.cur.plain_pow:
            # congruence only: x ** c for a non-integer constant c is an uninterpreted unary function of x
            return Sym(uf('pow_%r' % k)(real(self)))
        if k == 0.5:
            return ctx().sqrt(self)
        if k == -0.5:
            return 1 / ctx().sqrt(self)
        if k == 1.5:
            return self * ctx().sqrt(self)
        return ctx().pow(self, k)

    def __rpow__(self, base):
        if Ctx.cur is not None and Ctx.cur.plain_pow:
            return Sym(uf2('pow')(real(base), real(self)))
        raise HarnessError('symbolic exponent (base %r)' % (base,))

    # -- comparisons
    def _cmp(self, o, f):
        if isinstance(o, np.ndarray):
            return NotImplemented
        if isinstance(o, SymB):
            o = o._num()
        if not (isinstance(o, Sym) or _is_num(o) or isinstance(o, (bool, np.bool_))):
            return NotImplemented
        if isinstance(o, (float, np.floating)) and math.isinf(o):
            return bool(f(0.0, float(o)))
        a, b, _ = _coerce(self, o)
        g = getattr(self, 'grid', None) or getattr(o, 'grid', None)
        if g is not None and Ctx.cur is not None:
            d = real(Sym(a)) - real(Sym(b))
            Ctx.cur.assume(z3.Or(d == 0, d >= rv(g), d <= -rv(g)))
        return SymB(_simp(f(a, b)))

    def __lt__(self, o): return self._cmp(o, lambda a, b: a < b)
    def __le__(self, o): return self._cmp(o, lambda a, b: a <= b)
    def __gt__(self, o): return self._cmp(o, lambda a, b: a > b)
    def __ge__(self, o): return self._cmp(o, lambda a, b: a >= b)

    def __eq__(self, o):
        r = self._cmp(o, lambda a, b: a == b)
        return False if r is NotImplemented else r

    def __ne__(self, o):
        r = self._cmp(o, lambda a, b: a != b)
        return True if r is NotImplemented else r

    def __hash__(self):
        return id(self)

    def __bool__(self):
        return ctx().branch(self.e != 0)

    def __deepcopy__(self, memo):
        return self

    def __reduce__(self):
        # pickling a model that holds proxies: round-trip through a side table (z3 terms are not picklable)
        _PICKLED.append(self)
        return (_unpickle_sym, (len(_PICKLED) - 1,))

    def __copy__(self):
        return self

    def __index__(self):
        """a symbolic int used as an index / range bound: fork over its feasible values"""
        if not self.is_int:
            raise TypeError('symbolic float used as an index')
        return ctx().concretize(self.e)

    # -- rounding family (math.floor/ceil/trunc and round() return what we return)
    def __floor__(self):
        if self.is_int:
            return self
        c = Ctx.cur
        if c is not None and c.assume_fractional_floors:
            # floor as a fresh integer k with k < x < k + 1 (mixed linear arithmetic, much cheaper for z3 than nested to_int terms).
            # exact-integer arguments are where float rounding, not the real-arithmetic model, decides the result: excluded
            es = _simp(self.e)
            if z3.is_rational_value(es):
                return Sym(_simp(z3.ToInt(es)))
            k = c.fresh('floor', 'int')
            kr = z3.ToReal(k)
            try:
                c.assume(z3.And(kr < self.e, self.e < kr + 1))
            except PathAbort:
                # the argument is an integer for EVERY input of this path (e.g. identically 0): not a measure-zero boundary, keep the path
                c.assume(kr == self.e)
            return Sym(k)
        return Sym(_simp(z3.ToInt(self.e)))

    def __ceil__(self):
        if self.is_int:
            return self
        return Sym(_simp(-z3.ToInt(-self.e)))

    def __trunc__(self):
        if self.is_int:
            return self
        return Sym(_simp(z3.If(self.e >= 0, z3.ToInt(self.e), -z3.ToInt(-self.e))))

    def __round__(self, n=None):
        return sym_round(self, n)

    def round(self, decimals=0, out=None):  # np.round(x, k) calls x.round(decimals=k)
        r = sym_round(self, decimals)
        if isinstance(r, SymR):
            return r
        return Sym(real(r)) if isinstance(r, Sym) and not self.is_int else r

    def conjugate(self):
        return self

    def clip(self, min=None, max=None, out=None, **kw):     # np.clip(x, lo, hi) calls x.clip(lo, hi)
        r = self
        if min is not None:
            r = sym_max(r, min)
        if max is not None:
            r = sym_min(r, max)
        return r

    def sqrt(self):
        return ctx().sqrt(self)

    def __format__(self, spec):
        return TOKENS.format(self, spec)

    def __str__(self):
        return TOKENS.format(self, 'str')

    def __repr__(self):
        return 'Sym(%s)' % self.e

    # -- numpy interop
    def __array_ufunc__(self, ufunc, method, *inputs, **kw):
        if method != '__call__' or kw.get('out') is not None:
            return NotImplemented
        if any(isinstance(i, np.ndarray) and i.ndim > 0 for i in inputs):
            # broadcast over an array: object array elementwise
            arrs = [i if isinstance(i, np.ndarray) else None for i in inputs]
            shape = next(a.shape for a in arrs if a is not None)
            out = np.empty(shape, dtype=object)
            for idx in np.ndindex(shape):
                args = [a[idx] if a is not None else i for a, i in zip(arrs, inputs)]
                out[idx] = self.__array_ufunc__(ufunc, method, *args)
            return out
        inputs = [i.item() if isinstance(i, (np.ndarray, np.generic)) else i for i in inputs]
        f = _UFUNC.get(ufunc)
        if f is None:
            raise HarnessError('numpy ufunc %s on a symbolic value is not modelled' % ufunc.__name__)
        return f(*inputs)


class SymR(Sym):
    """a value that went through round(x, n >= 6); see sym_round"""
    __slots__ = ('grid',)

    def __init__(self, e, grid):
        self.e = e
        self.grid = grid


def sym_round(x, n=None):
    """Python round-half-even is modelled as round-half-up; callers that compare on a rounding grid
    carry the slack themselves (see DESIGN: np.round(x, 10))."""
    if not isinstance(x, Sym):
        return round(x, n) if n is not None else round(x)
    if x.is_int:
        return x
    if n is None or n == 0:
        r = Sym(_simp(z3.ToInt(x.e + z3.RealVal('1/2'))))
        return r
    if n >= 6:
        # np.round(x, 10)-style noise suppression: modelled as the identity (exact rounding makes every comparison a
        # mixed integer-real constraint z3 does not decide in time).  The result remembers its grid: a comparison that
        # involves it assumes the two sides are equal or at least one grid step apart, which is exactly the region where
        # comparing the rounded values and comparing the raw values agree.
        return SymR(x.e, Fraction(1, 10 ** n))
    scale = 10 ** n
    return Sym(_simp(z3.ToReal(z3.ToInt(x.e * scale + z3.RealVal('1/2'))) / scale))


def sym_abs(x):
    return abs(x)


def sym_sign(x):
    if isinstance(x, Sym):
        a, z, ints = _coerce(x, 0)
        one = z3.IntVal(1) if ints else z3.RealVal(1)
        return Sym(z3.If(a > 0, one, z3.If(a < 0, -one, one * 0)))
    return np.sign(x)


def sym_min(a, b):
    if isinstance(a, Sym) or isinstance(b, Sym):
        ta, tb, _ = _coerce(a, b)
        return Sym(_simp(z3.If(ta <= tb, ta, tb)))
    return min(a, b)


def sym_max(a, b):
    if isinstance(a, Sym) or isinstance(b, Sym):
        ta, tb, _ = _coerce(a, b)
        return Sym(_simp(z3.If(ta >= tb, ta, tb)))
    return max(a, b)


def sym_sqrt(x):
    if isinstance(x, Sym):
        return ctx().sqrt(x)
    return math.sqrt(x)


def sym_power(x, k):
    if isinstance(x, Sym) or isinstance(k, Sym):
        if not isinstance(x, Sym):
            raise HarnessError('symbolic exponent')
        return x ** k
    return np.power(x, k)


def _logical(f):
    def g(a, b):
        return SymB(f(_boolterm(a), _boolterm(b)))
    return g


_UFUNC.update({
    np.add: lambda a, b: a + b,
    np.subtract: lambda a, b: a - b,
    np.multiply: lambda a, b: a * b,
    np.true_divide: lambda a, b: a / b,
    np.floor_divide: lambda a, b: a // b,
    np.remainder: lambda a, b: a % b,
    np.negative: lambda a: -a,
    np.positive: lambda a: a,
    np.absolute: lambda a: abs(a),
    np.fabs: lambda a: abs(a),
    np.greater: lambda a, b: a > b,
    np.greater_equal: lambda a, b: a >= b,
    np.less: lambda a, b: a < b,
    np.less_equal: lambda a, b: a <= b,
    np.equal: lambda a, b: a == b,
    np.not_equal: lambda a, b: a != b,
    np.floor: lambda a: Sym(real(math.floor(a))),
    np.ceil: lambda a: Sym(real(math.ceil(a))),
    np.trunc: lambda a: Sym(real(math.trunc(a))),
    np.rint: lambda a: Sym(real(sym_round(a))),
    np.sqrt: sym_sqrt,
    np.square: lambda a: a * a,
    np.power: sym_power,
    np.float_power: sym_power,
    np.sign: sym_sign,
    np.minimum: sym_min,
    np.maximum: sym_max,
    __import__('numpy.core.umath', fromlist=['clip']).clip: lambda a, lo, hi: sym_min(sym_max(a, lo), hi),
    np.fmin: sym_min,
    np.fmax: sym_max,
    np.absolute: lambda a: abs(a),
    np.fabs: lambda a: abs(a),
    np.isnan: lambda a: False,
    np.isinf: lambda a: False,
    np.isfinite: lambda a: True,
    np.logical_and: _logical(z3.And),
    np.logical_or: _logical(z3.Or),
    np.exp: lambda a: Sym(uf('exp')(real(a))),
    np.log: lambda a: Sym(uf('log')(real(a))),
})


# ------------------------------------------------------------------------------------------------
# serialisation tokens
# ------------------------------------------------------------------------------------------------
class TokenTable:
    """Formats a symbolic value as a unique all-digit token and remembers (term, spec)."""
    BASE = 98765432100000000

    def __init__(self):
        self.reset()

    def reset(self):
        self.by_token = {}
        self.n = 0

    def format(self, sym, spec):
        self.n += 1
        tok = str(self.BASE + self.n)
        self.by_token[tok] = (sym, spec)
        return tok

    def lookup(self, text):
        text = text.strip()
        return self.by_token.get(text)


TOKENS = TokenTable()


# ------------------------------------------------------------------------------------------------
# shims for builtins that cannot be overloaded
# ------------------------------------------------------------------------------------------------
class _FloatMeta(type):
    def __instancecheck__(cls, x):
        return isinstance(x, float) or (isinstance(x, Sym) and not x.is_int)


class SFloat(metaclass=_FloatMeta):
    """drop-in for the builtin `float` inside modules under test"""
    def __new__(cls, x=0.0):
        if isinstance(x, Sym):
            return Sym(real(x)) if x.is_int else x
        if isinstance(x, SymB):
            return Sym(real(x))
        if isinstance(x, str):
            hit = TOKENS.lookup(x)
            if hit is not None:
                return token_value(hit, as_int=False)
        return float(x)

    @staticmethod
    def is_integer(x):
        return float.is_integer(x)


class _IntMeta(type):
    def __instancecheck__(cls, x):
        return isinstance(x, int) or (isinstance(x, Sym) and x.is_int)


class SInt(metaclass=_IntMeta):
    """drop-in for the builtin `int`"""
    def __new__(cls, x=0, *a):
        if isinstance(x, Sym):
            return math.trunc(x)
        if isinstance(x, SymB):
            return x._num()
        if isinstance(x, str) and not a:
            hit = TOKENS.lookup(x)
            if hit is not None:
                return token_value(hit, as_int=True)
        return int(x, *a)


_SPEC = re.compile(r'^(?:.?[<>=^])?[+\- ]?#?0?(\d+)?,?(?:\.(\d+))?([a-zA-Z%]?)$')


def parse_spec(spec):
    """(kind, digits) of a format spec: kind 'exact' | 'f' (digits after the point) | 'g' (significant digits)"""
    if spec in ('str', 'repr', 'r', 's', ''):
        return 'exact', None
    m = _SPEC.match(spec)
    if not m:
        raise HarnessError('format spec %r not modelled for tokens' % spec)
    width, prec, typ = m.groups()
    if typ in ('d', 's'):
        return 'exact', None
    if typ == '' and prec is None:
        return 'exact', None            # '{:15}'.format(x) of a float is repr-exact
    if typ in ('f', 'F', '%'):
        return 'f', int(prec) if prec is not None else 6
    if typ in ('g', 'G', ''):
        nd = int(prec) if prec is not None else 6
        return 'g', max(nd, 1)
    if typ in ('e', 'E'):
        return 'g', (int(prec) if prec is not None else 6) + 1
    raise HarnessError('format spec %r not modelled for tokens' % spec)


def token_value(hit, as_int):
    """The value a reader gets back from a token = the written value under the rounding relation of its format spec: a fresh
    symbolic value within half a unit of the last written digit of the original.  The same token always reads back as the same
    value, and a value that was itself read from a token of the same precision is written and read back unchanged (formatting a
    number that has at most n digits with n digits reproduces it)."""
    sym, spec = hit
    c = ctx()
    cache = c.__dict__.setdefault('tokvals', {})
    grid = c.__dict__.setdefault('grid', {})
    key = id(hit)
    if key in cache:
        out = cache[key][1]
    else:
        kind, nd = parse_spec(spec)
        if kind == 'exact' or (sym.is_int and (spec in ('g', '.0f') or kind == 'f')):
            out = sym
        else:
            o = real(sym)
            os_ = _simp(o)
            if z3.is_const(os_) and os_.decl().kind() == z3.Z3_OP_UNINTERPRETED and grid.get(os_.decl().name()) == (kind, nd):
                out = Sym(os_)
            elif z3.is_rational_value(os_):
                fv = float(os_.as_fraction())
                out = Sym(rv(float(('%.' + str(nd) + ('f' if kind == 'f' else 'g')) % fv)))
            else:
                v = c.fresh('tok')
                if kind == 'f':
                    eps = z3.RealVal(Fraction(1, 2 * 10 ** nd))
                    c.add_side(z3.And(v - o <= eps, o - v <= eps))
                else:
                    rel = z3.RealVal(Fraction(1, 2 * 10 ** (nd - 1)))  # half unit in the last of nd sig. digits, relative bound
                    ab = z3.If(o >= 0, o, -o)
                    c.add_side(z3.And(v - o <= rel * ab, o - v <= rel * ab))
                grid[v.decl().name()] = (kind, nd)
                out = Sym(v)
        cache[key] = (hit, out)
    if as_int:
        return math.trunc(out) if not out.is_int else out
    return Sym(real(out)) if out.is_int else out


def s_isinstance(x, t):
    """drop-in for isinstance that lets proxies pass for int/float"""
    if isinstance(x, Sym):
        import numbers
        ts = t if isinstance(t, tuple) else (t,)
        for k in ts:
            if k in (float, SFloat, np.floating, np.float64) and not x.is_int:
                return True
            if k in (int, SInt, np.integer) and x.is_int:
                return True
            if k in (numbers.Number, numbers.Real, numbers.Complex, Sym, object):
                return True
            if k is numbers.Integral and x.is_int:
                return True
        return False
    if isinstance(x, SymB):
        ts = t if isinstance(t, tuple) else (t,)
        return any(k in (bool, SymB, object, np.bool_) for k in ts)
    if isinstance(t, tuple):
        t = tuple({SFloat: float, SInt: int}.get(k, k) for k in t)
    else:
        t = {SFloat: float, SInt: int}.get(t, t)
    return isinstance(x, t)


class MathShim:
    """drop-in for the `math` module"""
    def __getattr__(self, n):
        return getattr(math, n)

    @staticmethod
    def floor(x): return math.floor(x)
    @staticmethod
    def ceil(x): return math.ceil(x)
    @staticmethod
    def trunc(x): return math.trunc(x)
    @staticmethod
    def sqrt(x): return sym_sqrt(x)
    @staticmethod
    def fabs(x): return abs(x)

    @staticmethod
    def pow(x, k):
        if isinstance(x, Sym):
            return x ** k
        return math.pow(x, k)

    @staticmethod
    def isnan(x):
        return False if isinstance(x, Sym) else math.isnan(x)

    @staticmethod
    def exp(x): return sym_math('exp', x)
    @staticmethod
    def log(x, *a): return sym_math('log', x) if not a else math.log(x, *a)
    @staticmethod
    def sin(x): return sym_math('sin', x)
    @staticmethod
    def cos(x): return sym_math('cos', x)
    @staticmethod
    def tan(x): return sym_math('tan', x)
    @staticmethod
    def asin(x): return sym_math('asin', x)
    @staticmethod
    def acos(x): return sym_math('acos', x)
    @staticmethod
    def atan(x): return sym_math('atan', x)

    @staticmethod
    def isinf(x):
        return False if isinstance(x, Sym) else math.isinf(x)

    @staticmethod
    def isclose(a, b, rel_tol=1e-09, abs_tol=0.0):
        if isinstance(a, Sym) or isinstance(b, Sym):
            d = abs(a - b)
            return (d <= sym_max(rel_tol * sym_max(abs(a), abs(b)), abs_tol))
        return math.isclose(a, b, rel_tol=rel_tol, abs_tol=abs_tol)


MATH = MathShim()

_UF = {}


def uf(name):
    """uninterpreted unary real function shared by all engines (exp, log, sin, ...)"""
    if name not in _UF:
        _UF[name] = z3.Function('fn_' + name, z3.RealSort(), z3.RealSort())
    return _UF[name]


def uf2(name):
    if ('2', name) not in _UF:
        _UF[('2', name)] = z3.Function('fn2_' + name, z3.RealSort(), z3.RealSort(), z3.RealSort())
    return _UF[('2', name)]


def sym_math(name, x):
    return sym_uf(name)(x)


def sym_pow(a, b):
    if isinstance(a, Sym) or isinstance(b, Sym):
        return a ** b
    try:
        return math.pow(a, b)
    except (ValueError, OverflowError, ZeroDivisionError):
        return math.nan


def sym_uf(name):
    pyf = getattr(math, name)

    def f(x):
        if isinstance(x, Sym):
            return Sym(uf(name)(real(x)))
        return pyf(x)
    return f


def sym_interp(x, xp, fp):
    """np.interp for scalar x with (possibly symbolic) x / break points / values: ite chain"""
    xp, fp = list(xp), list(fp)
    if not any(isinstance(v, Sym) for v in [x] + xp + fp):
        return float(np.interp(x, xp, fp))
    out = real(fp[-1])
    xr = real(x)
    for i in range(len(xp) - 1, 0, -1):
        x0, x1, f0, f1 = real(xp[i - 1]), real(xp[i]), real(fp[i - 1]), real(fp[i])
        seg = f0 + (f1 - f0) * (xr - x0) / (x1 - x0)
        out = z3.If(xr < x1, seg, out)
    out = z3.If(xr <= real(xp[0]), real(fp[0]), out)
    return Sym(_simp(out))


def _has_sym(a):
    if isinstance(a, (Sym, SymB)):
        return True
    if isinstance(a, np.ndarray):
        return a.dtype == object and any(isinstance(v, (Sym, SymB)) for v in a.ravel())
    if isinstance(a, (list, tuple)):
        return any(_has_sym(v) for v in a)
    if hasattr(a, 'dtype') and hasattr(a, 'values'):
        return _has_sym(np.asarray(a.values, dtype=object)) if a.dtype == object else False
    return False


class NpShim:
    """drop-in for the `numpy` module inside modules under test: functions that are not ufuncs"""
    def __getattr__(self, n):
        return getattr(np, n)

    @staticmethod
    def interp(x, xp, fp, *a, **kw):
        xp = list(np.asarray(xp, dtype=object).ravel()) if not isinstance(xp, list) else xp
        fp = list(np.asarray(fp, dtype=object).ravel()) if not isinstance(fp, list) else fp
        if not (_has_sym(x) or _has_sym(xp) or _has_sym(fp)):
            return np.interp(x, [float(v) for v in xp], [float(v) for v in fp], *a, **kw)
        if hasattr(x, 'map') and hasattr(x, 'index'):  # pandas Series
            return x.map(lambda v: sym_interp(v, xp, fp))
        if isinstance(x, np.ndarray) and x.ndim > 0:
            out = np.empty(x.shape, dtype=object)
            for idx in np.ndindex(x.shape):
                out[idx] = sym_interp(x[idx], xp, fp)
            return out
        return sym_interp(x, xp, fp)

    @staticmethod
    def round(x, decimals=0, out=None):
        if isinstance(x, Sym):
            return x.round(decimals)
        return np.round(x, decimals)

    around = round

    @staticmethod
    def array(obj, dtype=None, **kw):
        if _has_sym(obj) and dtype in (None, float, np.float64):
            return np.array(obj, dtype=object, **kw)
        return np.array(obj, dtype=dtype, **kw)

    @staticmethod
    def isnan(x):
        if isinstance(x, Sym):
            return False
        if _has_sym(x):
            return np.zeros(np.shape(x), dtype=bool)
        return np.isnan(x)

    @staticmethod
    def isclose(a, b, rtol=1e-05, atol=1e-08, equal_nan=False):
        if isinstance(a, Sym) or isinstance(b, Sym):
            return abs(a - b) <= (atol + rtol * abs(b))
        return np.isclose(a, b, rtol=rtol, atol=atol, equal_nan=equal_nan)


NP = NpShim()


def install_pandas_shim():
    """pandas' reductions on object dtype insist on float()/complex() of the running sum; let proxies through"""
    import pandas.core.nanops as nanops
    if getattr(nanops._ensure_numeric, '_vf', False):
        return
    orig = nanops._ensure_numeric

    def _ensure_numeric(x):
        if isinstance(x, Sym):
            return x
        if isinstance(x, np.ndarray) and x.dtype == object and any(isinstance(v, Sym) for v in x.ravel()):
            return x
        return orig(x)
    _ensure_numeric._vf = True
    nanops._ensure_numeric = _ensure_numeric


def install_shims(module, names=('int', 'float', 'isinstance', 'math')):
    """inject polymorphic builtins into a module's globals; returns an undo function"""
    table = {'int': SInt, 'float': SFloat, 'isinstance': s_isinstance, 'math': MATH, 'np': NP, 'numpy': NP, 'json': JSON,
             'abs': abs, 'round': round, 'min': s_min, 'max': s_max}
    saved = {}
    for n in names:
        saved[n] = module.__dict__.get(n, _MISSING)
        module.__dict__[n] = table[n]

    def undo():
        for n, v in saved.items():
            if v is _MISSING:
                module.__dict__.pop(n, None)
            else:
                module.__dict__[n] = v
    return undo


_MISSING = object()


def s_min(*a, **kw):
    return min(*a, **kw)


def s_max(*a, **kw):
    return max(*a, **kw)


# ------------------------------------------------------------------------------------------------
# explorer
# ------------------------------------------------------------------------------------------------
class Path:
    __slots__ = ('pc', 'side', 'value', 'exc', 'choices', 'notes', 'ctx')

    def __init__(self, c, value, exc):
        self.pc = list(c.pc)
        self.side = list(c.side)
        self.value = value
        self.exc = exc
        self.choices = list(c.choices)
        self.notes = list(c.notes)
        self.ctx = c

    def constraints(self):
        return self.side + self.pc


def explore(fn, max_paths=100000, timeout_s=600.0, feas_timeout_ms=5000, catch=(Exception,)):
    """Run fn(ctx) on every feasible path.  Yields Path objects.  Exceptions of the classes in
    `catch` raised by the code under test end a path and are delivered in Path.exc.
    Raises Inconclusive if a budget is hit (never silently truncates)."""
    decisions = []
    deadline = time.time() + timeout_s
    n = 0
    while True:
        c = Ctx(decisions, feas_timeout_ms, deadline)
        prev = Ctx.cur
        Ctx.cur = c
        value, exc, aborted = None, None, False
        try:
            value = fn(c)
        except PathAbort:
            aborted = True
        except catch as ex:  # noqa
            exc = ex
        finally:
            Ctx.cur = prev
        if aborted:
            STATS.aborted_paths += 1
        else:
            STATS.paths += 1
            n += 1
            yield Path(c, value, exc)
        # backtrack
        del decisions[c.pos:]
        while decisions and decisions[-1][1]:
            decisions.pop()
        if not decisions:
            return
        decisions[-1][0] = not decisions[-1][0]
        decisions[-1][1] = True
        if n >= max_paths:
            raise Inconclusive('path budget %d exhausted' % max_paths)
        if time.time() > deadline:
            raise Inconclusive('time budget %.0fs exhausted' % timeout_s)


# ------------------------------------------------------------------------------------------------
# deciding obligations
# ------------------------------------------------------------------------------------------------
class Verdict:
    __slots__ = ('status', 'model', 'seconds', 'reason')

    def __init__(self, status, model=None, seconds=0.0, reason=''):
        self.status = status  # 'unsat' | 'sat' | 'unknown'
        self.model = model
        self.seconds = seconds
        self.reason = reason


def decide(constraints, claim, timeout_ms=20000, tactic=None):
    """Is `constraints AND NOT claim` satisfiable?  unsat => claim holds for all values."""
    s = z3.Solver() if tactic is None else z3.Tactic(tactic).solver()
    s.set('timeout', timeout_ms)
    for c in constraints:
        s.add(c)
    s.add(z3.Not(term(claim)))
    t0 = time.time()
    r = s.check()
    dt = time.time() - t0
    STATS.queries += 1
    STATS.solver_s += dt
    if r == z3.unsat:
        STATS.unsat += 1
        return Verdict('unsat', None, dt)
    if r == z3.sat:
        STATS.sat += 1
        return Verdict('sat', s.model(), dt)
    STATS.unknown += 1
    return Verdict('unknown', None, dt, s.reason_unknown())


def satisfiable(constraints, timeout_ms=20000):
    """reachability twin: constraints alone must be sat"""
    s = z3.Solver()
    s.set('timeout', timeout_ms)
    for c in constraints:
        s.add(c)
    t0 = time.time()
    r = s.check()
    dt = time.time() - t0
    STATS.queries += 1
    STATS.solver_s += dt
    if r == z3.sat:
        STATS.sat += 1
        return Verdict('sat', s.model(), dt)
    if r == z3.unsat:
        STATS.unsat += 1
        return Verdict('unsat', None, dt)
    STATS.unknown += 1
    return Verdict('unknown', None, dt, s.reason_unknown())


def model_value(model, t, as_float=True):
    """concrete Python value of a term under a model (completing unconstrained symbols)"""
    v = model.eval(term(t), model_completion=True)
    if z3.is_int_value(v):
        return v.as_long()
    if z3.is_rational_value(v):
        fr = v.as_fraction()
        return float(fr) if as_float else fr
    if z3.is_algebraic_value(v):
        a = v.approx(30)
        return float(a.as_fraction())
    if z3.is_true(v):
        return True
    if z3.is_false(v):
        return False
    raise HarnessError('cannot read model value %s' % v)


def concrete(fn):
    """run fn outside any exploration (plain Python values)"""
    prev = Ctx.cur
    Ctx.cur = None
    try:
        return fn()
    finally:
        Ctx.cur = prev


# ------------------------------------------------------------------------------------------------
# term utilities
# ------------------------------------------------------------------------------------------------
def free_consts(terms):
    """uninterpreted constants occurring in the terms"""
    seen, out, stack = set(), {}, list(terms)
    while stack:
        t = stack.pop()
        if t.get_id() in seen:
            continue
        seen.add(t.get_id())
        if z3.is_const(t) and t.decl().kind() == z3.Z3_OP_UNINTERPRETED:
            out[str(t)] = t
        else:
            stack.extend(t.children())
    return out


def rename(terms, suffix, keep=()):
    """copy of the terms with every uninterpreted constant renamed (except those named in keep)"""
    keep = {str(k) for k in keep}
    sub = []
    for n, c in free_consts(terms).items():
        if n in keep:
            continue
        sub.append((c, z3.Const(n + suffix, c.sort())))
    return [z3.substitute(t, *sub) if sub else t for t in terms]


def pow_apps(terms):
    """applications of the uninterpreted power functions: {decl name: (decl, [args])}"""
    seen, out, stack = set(), {}, list(terms)
    while stack:
        t = stack.pop()
        if t.get_id() in seen:
            continue
        seen.add(t.get_id())
        if z3.is_app(t) and t.num_args() == 1 and t.decl().name().startswith('pow_'):
            d = out.setdefault(t.decl().name(), (t.decl(), []))
            d[1].append(t.arg(0))
        stack.extend(t.children())
    return out


def pow_axioms(terms):
    """monotonicity / anchor axioms for all power-function applications in the terms (pairwise)"""
    ax = []
    for name, (f, args) in pow_apps(terms).items():
        e = float(name[4:])
        uniq = {}
        for a in args:
            uniq[a.get_id()] = a
        args = list(uniq.values())
        if e > 0:
            args = args + [z3.RealVal(0), z3.RealVal(1)]
        for a in args:
            if e > 0:
                ax.append(z3.Implies(a == 0, f(a) == 0))
            ax.append(z3.Implies(a == 1, f(a) == 1))
            ax.append(z3.Implies(a > 0, f(a) > 0))
            sa = z3.simplify(a)
            if z3.is_rational_value(sa):
                v = float(sa.as_fraction())
                if v > 0:
                    ax.append(f(a) == rv(math.pow(v, e)))
        for i in range(len(args)):
            for j in range(i + 1, len(args)):
                x, y = args[i], args[j]
                if e > 0:
                    ax.append(z3.Implies(z3.And(x >= 0, y >= 0), z3.And((x < y) == (f(x) < f(y)), (x == y) == (f(x) == f(y)))))
                else:
                    ax.append(z3.Implies(z3.And(x > 0, y > 0), z3.And((x < y) == (f(x) > f(y)), (x == y) == (f(x) == f(y)))))
    return ax


def zabs(t):
    return z3.If(t >= 0, t, -t)


import contextlib


@contextlib.contextmanager
def scratch():
    """a context in which oracle terms (sqrt, pow) can be built outside an exploration; its .side holds their definitions"""
    prev = Ctx.cur
    c = Ctx([])
    Ctx.cur = c
    try:
        yield c
    finally:
        Ctx.cur = prev


class JsonShim:
    """drop-in for the `json` module inside modules under test: proxies are written as their all-digit token (a JSON integer
    literal, which json reads back exactly) and turned back into the proxy on load (repr round trip of a float is exact)"""
    def __getattr__(self, n):
        import json
        return getattr(json, n)

    @staticmethod
    def _enc(o):
        if isinstance(o, Sym):
            return int(TOKENS.format(o, 'repr'))
        if isinstance(o, SymB):
            raise HarnessError('symbolic bool in JSON')
        if isinstance(o, np.ndarray):
            return list(o)
        if isinstance(o, (np.integer,)):
            return int(o)
        if isinstance(o, (np.floating,)):
            return float(o)
        raise TypeError('Object of type %s is not JSON serializable' % type(o).__name__)

    @staticmethod
    def _dec(x):
        if isinstance(x, dict):
            return {k: JsonShim._dec(v) for k, v in x.items()}
        if isinstance(x, list):
            return [JsonShim._dec(v) for v in x]
        if isinstance(x, int) and not isinstance(x, bool) and x >= TokenTable.BASE:
            hit = TOKENS.lookup(str(x))
            if hit is not None:
                return hit[0]
        return x

    def dump(self, obj, fp, **kw):
        import json
        kw.setdefault('default', self._enc)
        return json.dump(obj, fp, **kw)

    def dumps(self, obj, **kw):
        import json
        kw.setdefault('default', self._enc)
        return json.dumps(obj, **kw)

    def load(self, fp, **kw):
        import json
        return self._dec(json.load(fp, **kw))

    def loads(self, s, **kw):
        import json
        return self._dec(json.loads(s, **kw))


JSON = JsonShim()

"""Shared scenario builder for the run-history properties (C10 pause/restart, C11 definition unchanged / reset / rerun):
one small network with every kind of run-time state the simulator keeps in the model - pipe status, valve setting and
status, pump status, a leak window, a tank whose level evolves, a tank-level control, a rule on the rule grid - driven by
controls whose instants, values and thresholds are symbolic.  Run through the REAL run_sim with vf.ctrlplane."""
import z3

import wntr
from wntr.network.base import LinkStatus
from wntr.network.controls import Control, ControlAction, SimTimeCondition, TimeOfDayCondition, ValueCondition, Comparison, Rule, ControlPriority

from . import symx, ctrlplane
from .symx import Sym, real

TANK_Q = 0.01


def build(V, cfg):
    wn = wntr.network.WaterNetworkModel()
    wn.add_reservoir('R', base_head=60.0)
    wn.add_tank('T', elevation=10.0, init_level=5.0, min_level=0.0, max_level=40.0, diameter=10.0)
    for n in ('J1', 'J2', 'J3'):
        wn.add_junction(n, base_demand=0.01, elevation=0.0)
    wn.add_pipe('P1', 'R', 'J1')
    wn.add_pipe('P2', 'J1', 'J2')
    wn.add_valve('VT', 'J2', 'J3', 0.3, 'TCV', 0.0, 10.0)
    wn.add_pump('PP', 'R', 'J3', 'POWER', 3000.0)
    wn.add_pipe('P3', 'J3', 'T')
    if cfg.get('head_pump', False):
        # head pump whose curve points were given in no particular order (add_curve keeps the order it is given)
        wn.add_curve('HC', 'HEAD', [(0.0, 40.0), (0.1, 10.0), (0.05, 30.0)])
        wn.add_pump('PH', 'R', 'J1', 'HEAD', 'HC')
    if cfg.get('dead_end'):
        # a junction fed only from the tank: when the tank reaches its minimum level the simulator itself closes P4 and J4 is cut off
        wn.add_junction('J4', base_demand=0.01, elevation=0.0)
        wn.add_pipe('P4', 'T', 'J4')
        wn.get_node('T')._min_level = V.real('tank_min', 3.0, 4.9)
        # supply returns later through a pipe from the reservoir straight into the tank, opened by a time control (at the minimum
        # level the simulator re-opens a link through which the tank would fill)
        wn.add_pipe('PT', 'R', 'T', initial_status='CLOSED')
        wn.get_link('PT')._user_status = LinkStatus.Closed
        wn.add_control('refill', Control(SimTimeCondition(wn, Comparison.eq, cfg.get('refill_at', 2 * cfg['H'] + 1800)), ControlAction(wn.get_link('PT'), 'status', LinkStatus.Open)))
    t = wn.options.time
    t.hydraulic_timestep = cfg['H']
    t.rule_timestep = cfg.get('R', cfg['H'])
    t.report_timestep = cfg.get('report', 'ALL')
    t.duration = cfg['dur']
    if cfg.get('clock'):
        t.__dict__['start_clocktime'] = V.int('start_clocktime', 0, 86399)
    hi = cfg['dur'] + cfg['H']
    for k, spec in enumerate(cfg['controls']):
        kind = spec['kind']
        name = 'c%d' % k
        if kind in ('status', 'setting', 'power', 'base_speed'):
            tgt = wn.get_link(spec['target'])
            val = spec['value']
            if val == 'sym':
                val = V.real('val%d' % k, 0.5, 50)
            elif kind == 'status':
                val = LinkStatus(val)
            if spec.get('clock'):
                cnd = TimeOfDayCondition(wn, Comparison.eq, 0, repeat=True)
                cnd._threshold = V.int('t%d' % k, 0, 86399)
            else:
                cnd = SimTimeCondition(wn, Comparison.eq, 0)
                cnd._threshold = V.int('t%d' % k, 0, hi)
            wn.add_control(name, Control(cnd, ControlAction(tgt, kind, val), priority=ControlPriority(spec.get('priority', 3))))
        elif kind == 'pump_curve':
            # a control that swaps the head curve of the head pump (the updater has a registration for pump_curve_name)
            wn.add_curve('HC2', 'HEAD', [(0.05, 60.0)])
            cnd = SimTimeCondition(wn, Comparison.eq, 0)
            cnd._threshold = V.int('t%d' % k, 0, hi)
            wn.add_control(name, Control(cnd, ControlAction(wn.get_link(spec['target']), 'pump_curve_name', 'HC2')))
        elif kind == 'leak':
            node = wn.get_node(spec['target'])
            node.add_leak(wn, 0.001, 0.75, start_time=0, end_time=0)
            s_, e_ = V.int('ls%d' % k, 0, hi), V.int('le%d' % k, 1, hi + cfg['H'])
            if V.symbolic:
                V.c.assume(s_ < e_)
            wn.get_control(node._leak_start_control_name)._condition._threshold = s_
            wn.get_control(node._leak_end_control_name)._condition._threshold = e_
        elif kind == 'level':
            tank = wn.get_node('T')
            cnd = ValueCondition(tank, 'level', Comparison[spec['rel']], 0.0)
            cnd._threshold = V.real('lv%d' % k, 4, 12)
            wn.add_control(name, Control(cnd, ControlAction(wn.get_link(spec['target']), 'status', LinkStatus(spec['value']))))
        elif kind == 'rule':
            cnd = SimTimeCondition(wn, Comparison[spec['rel']], 0)
            cnd._threshold = V.int('rt%d' % k, 0, hi)
            then = [ControlAction(wn.get_link(spec['target']), 'status', LinkStatus(spec['then']))]
            els = [ControlAction(wn.get_link(spec['target']), 'status', LinkStatus(spec['else']))] if spec.get('else') is not None else None
            wn.add_control(name, Rule(cnd, then, els, priority=ControlPriority(spec.get('priority', 3))))
    return wn


def policy(tank_q=TANK_Q, heads=None):
    heads = heads or {}

    def flow_of(plane, wn, ln):
        if ln == 'P3':
            return tank_q(wn) if callable(tank_q) else tank_q
        if ln == 'PT':
            return 0.05
        return 0.004
    return ctrlplane.table_policy(flow_of, lambda pl, wn, nn: heads.get(nn, 35.0), leak_of=lambda pl, wn, nn: 0.002)


TABLES = [('link', 'status'), ('link', 'setting'), ('link', 'flowrate'), ('node', 'head'), ('node', 'leak_demand'), ('node', 'demand')]


def snapshot(res):
    """the recorded run as a plain nested structure (leaves may be proxies)"""
    out = {'time': list(res.time)}
    for kind, table in TABLES:
        d = (res.node if kind == 'node' else res.link)[table]
        out['%s.%s' % (kind, table)] = {k: list(v) for k, v in d.items()}
    return out


def concat(a, b):
    out = {'time': a['time'] + b['time']}
    for k in a:
        if k != 'time':
            out[k] = {e: a[k][e] + b[k][e] for e in a[k]}
    return out


def frames_snapshot(res):
    """same structure from a real SimulationResults (replay side)"""
    out = {'time': [int(t) for t in res.node['head'].index]}
    for kind, table in TABLES:
        df = (res.node if kind == 'node' else res.link)[table]
        out['%s.%s' % (kind, table)] = {c: [float(x) for x in df[c].values] for c in df.columns}
    return out

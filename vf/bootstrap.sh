#!/bin/sh
# Build the overlay venv (idempotent, offline): /venv's packages + /repo + z3-solver.
set -e
V=/verif/.venv
exec 9>/verif/.venv.lock; flock 9
if [ -x "$V/bin/python" ] && "$V/bin/python" -c "import z3, wntr" >/dev/null 2>&1; then exit 0; fi
rm -rf "$V"
/venv/bin/python -m venv "$V"
SP=$("$V/bin/python" -c "import sysconfig;print(sysconfig.get_paths()['purelib'])")
printf "import site; site.addsitedir('/venv/lib/python3.12/site-packages')\n/repo\n" > "$SP/overlay.pth"
PIP_NO_INDEX=1 "$V/bin/pip" install -q --no-index --find-links /opt/veriftools/wheels z3-solver >/dev/null
"$V/bin/python" -c "import z3, wntr" >/dev/null 2>&1

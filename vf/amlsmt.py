"""E2 `amlsmt`: the algebraic model built by the real WNTR model builder, evaluated on z3 proxies.

`wntr.sim.aml.aml.Evaluator` (SWIG wrapper of the C++ evaluator, which can only hold doubles) is
replaced *inside the checking process* by `PyEvaluator`, a container with the same interface whose
leaves can hold proxies.  Everything else is the real code: `create_hydraulic_model`, every
`param.*.build`, `constraint.*.build`, `ModelUpdater`, operator overloading into expression DAGs,
`get_rpn`, `reverse_sd`, `expression.evaluate`, `ConditionalExpression.evaluate`.  The DAG evaluation
`Constraint.evaluate()` then yields a z3 term (per explored branch of a conditional expression).

`rpn_eval` interprets an RPN program with the semantics of evaluator.cpp:_evaluate (used by C15 and
as a cross-check of get_rpn in the model-level checks).
"""
import math
import contextlib

import z3

from . import symx
from .symx import Sym, SymB, real

import wntr.sim.aml.aml as aml_mod
import wntr.sim.aml.expr as expr_mod

ADD, SUB, MUL, DIV, POW, ABS, SIGN, IF_ELSE, INEQUALITY, EXP, LOG, NEGATION, SIN, COS, TAN, ASIN, ACOS, ATAN = range(-1, -19, -1)


class _Leaf:
    __slots__ = ('value', 'index', 'kind')

    def __init__(self, value, kind):
        self.value = value
        self.kind = kind
        self.index = None


class _Con:
    def __init__(self):
        self.leaves = []
        self.fn_rpn = []
        self.jac_rpn = {}
        self.index = None

    def add_leaf(self, leaf):
        self.leaves.append(leaf)

    def add_fn_rpn_term(self, t):
        self.fn_rpn.append(int(t))

    def add_jac_rpn_term(self, v, t):
        self.jac_rpn.setdefault(v, []).append(int(t))


class _IfElseCon:
    def __init__(self):
        self.leaves = []
        self.cur_cond, self.cur_fn, self.cur_jac = [], [], {}
        self.condition_rpn, self.fn_rpn, self.jac_rpn = [], [], {}
        self.index = None

    def add_leaf(self, leaf):
        self.leaves.append(leaf)

    def add_condition_rpn_term(self, t):
        self.cur_cond.append(int(t))

    def add_fn_rpn_term(self, t):
        self.cur_fn.append(int(t))

    def add_jac_rpn_term(self, v, t):
        self.cur_jac.setdefault(v, []).append(int(t))

    def end_condition(self):
        self.condition_rpn.append(self.cur_cond)
        self.fn_rpn.append(self.cur_fn)
        for v, r in self.cur_jac.items():
            self.jac_rpn.setdefault(v, []).append(r)
        self.cur_cond, self.cur_fn, self.cur_jac = [], [], {}


class PyEvaluator:
    """Same interface as wntr.sim.aml.evaluator.Evaluator; holds arbitrary Python values."""
    instances = []

    def __init__(self):
        self.vars, self.params, self.floats, self.cons, self.ifcons = [], [], [], [], []
        self.structure_set = False
        self.nnz = 0
        PyEvaluator.instances.append(self)

    def add_var(self, value):
        self.structure_set = False
        v = _Leaf(value, 'var')
        self.vars.append(v)
        return v

    def add_param(self, value):
        self.structure_set = False
        v = _Leaf(value, 'param')
        self.params.append(v)
        return v

    def add_float(self, value):
        self.structure_set = False
        v = _Leaf(value, 'float')
        self.floats.append(v)
        return v

    def add_constraint(self):
        self.structure_set = False
        c = _Con()
        self.cons.append(c)
        return c

    def add_if_else_constraint(self):
        self.structure_set = False
        c = _IfElseCon()
        self.ifcons.append(c)
        return c

    def remove_var(self, v):
        self.structure_set = False
        self.vars.remove(v)

    def remove_param(self, v):
        self.structure_set = False
        self.params.remove(v)

    def remove_float(self, v):
        self.structure_set = False
        self.floats.remove(v)

    def remove_constraint(self, c):
        self.structure_set = False
        self.cons.remove(c)

    def remove_if_else_constraint(self, c):
        self.structure_set = False
        self.ifcons.remove(c)

    def set_structure(self):
        if len(self.vars) != len(self.cons) + len(self.ifcons):     # same refusal as Evaluator::set_structure in evaluator.cpp
            raise ValueError('The number of constraints and variables must be equal.')
        self.structure_set = True
        for i, v in enumerate(self.vars):
            v.index = i
        n = 0
        nnz = 0
        for c in self.cons + self.ifcons:
            c.index = n
            n += 1
            nnz += len(c.jac_rpn)
        self.nnz = nnz

    def get_x(self, n):
        return [v.value for v in self.vars]

    def load_var_values_from_x(self, x):
        for v, val in zip(self.vars, x):
            v.value = val

    def evaluate(self, n):
        out = []
        for c in self.cons:
            out.append(rpn_eval(c.fn_rpn, c.leaves))
        for c in self.ifcons:
            out.append(ifelse_eval(c)[0])
        return out


def ifelse_eval(c):
    """first condition whose RPN evaluates to 1 (or is empty) selects the branch; returns (residual, branch index)"""
    for i, cond in enumerate(c.condition_rpn):
        if len(cond) == 0 or truthy(rpn_eval(cond, c.leaves) == 1):
            return rpn_eval(c.fn_rpn[i], c.leaves), i
    raise symx.HarnessError('no condition selected')


def truthy(b):
    return bool(b)


# ---- uninterpreted transcendental functions shared by the DAG side and the RPN side ---------------
uf = symx.uf
_trans = symx.sym_uf


class _ExprMath:
    """replacement for the `math` module inside wntr.sim.aml.expr"""
    inf = math.inf

    def __getattr__(self, n):
        return getattr(math, n)

    fabs = staticmethod(lambda x: abs(x) if isinstance(x, Sym) else math.fabs(x))
    exp = staticmethod(_trans('exp'))
    log = staticmethod(_trans('log'))
    sin = staticmethod(_trans('sin'))
    cos = staticmethod(_trans('cos'))
    tan = staticmethod(_trans('tan'))
    asin = staticmethod(_trans('asin'))
    acos = staticmethod(_trans('acos'))
    atan = staticmethod(_trans('atan'))


def rpn_eval(rpn, leaves):
    """evaluator.cpp:_evaluate on a concrete RPN program with (possibly symbolic) leaf values"""
    st = []
    m = _ExprMath
    for t in rpn:
        if t >= 0:
            st.append(leaves[t].value)
            continue
        if t in (ADD, SUB, MUL, DIV, POW):
            b = st.pop()
            a = st.pop()
            if t == ADD:
                r = a + b
            elif t == SUB:
                r = a - b
            elif t == MUL:
                r = a * b
            elif t == DIV:
                r = a / b
            else:
                r = a ** b
        elif t == ABS:
            r = abs(st.pop())
        elif t == SIGN:
            a = st.pop()
            r = _ite(a >= 0, 1.0, -1.0)
        elif t == IF_ELSE:
            b = st.pop()
            a = st.pop()
            c = st.pop()
            r = _ite(c == 1, a, b)
        elif t == INEQUALITY:
            ub = st.pop()
            lb = st.pop()
            a = st.pop()
            r = _ite(_and(_ge(a, lb), _le(a, ub)), 1.0, 0.0)
        elif t == NEGATION:
            r = -st.pop()
        elif t in (EXP, LOG, SIN, COS, TAN, ASIN, ACOS, ATAN):
            name = {EXP: 'exp', LOG: 'log', SIN: 'sin', COS: 'cos', TAN: 'tan', ASIN: 'asin', ACOS: 'acos', ATAN: 'atan'}[t]
            r = getattr(m, name)(st.pop())
        else:
            raise symx.HarnessError('RPN opcode %d not recognized' % t)
        st.append(r)
    if len(st) != 1:
        raise symx.HarnessError('RPN program leaves %d values on the stack' % len(st))
    return st[0]


def _ge(a, b):
    if isinstance(b, float) and math.isinf(b):
        return b < 0
    return a >= b


def _le(a, b):
    if isinstance(b, float) and math.isinf(b):
        return b > 0
    return a <= b


def _and(a, b):
    if isinstance(a, SymB) or isinstance(b, SymB):
        return SymB(z3.And(symx._boolterm(a), symx._boolterm(b)))
    return a and b


def _ite(c, a, b):
    if isinstance(c, SymB):
        return Sym(z3.If(c.e, real(a), real(b)))
    return a if c else b


# ---- installation -----------------------------------------------------------------------------------
@contextlib.contextmanager
def installed():
    """PyEvaluator in place of the C++ evaluator, proxies accepted as native numbers by expr.py"""
    saved_eval = aml_mod.Evaluator
    saved_math = expr_mod.math
    aml_mod.Evaluator = PyEvaluator
    expr_mod.math = _ExprMath()
    expr_mod.native_numeric_types.add(Sym)
    try:
        yield
    finally:
        aml_mod.Evaluator = saved_eval
        expr_mod.math = saved_math
        expr_mod.native_numeric_types.discard(Sym)


STUBS = ['wntr.sim.aml.aml.Evaluator -> vf.amlsmt.PyEvaluator (value container with the C++ interface; no numerics)',
         'wntr.sim.aml.expr.math -> shim (fabs=abs on proxies; exp/log/sin/... uninterpreted functions)',
         'wntr.sim.aml.expr.native_numeric_types += Sym']


def fold_paths(paths, value_of=lambda p: p.value):
    """(path condition, value) list -> one ite term"""
    out = None
    for p in reversed(paths):
        v = real(value_of(p))
        cond = z3.And(*p.pc) if p.pc else z3.BoolVal(True)
        out = v if out is None else z3.If(cond, v, out)
    return out

"""Seeded-change bookkeeping.

  python3 vf/seed.py import C20 /tmp/wt/C20        copy mutants/<n>/{patch.diff,demo.py,meta.json} to seeded/C20-<n>/
  python3 vf/seed.py confirm C20-1 [--tests]        scratch worktree of /repo HEAD: demo passes unpatched, fails patched;
                                                    with --tests also the whole pinned test-suite (slow)
  python3 vf/seed.py detect C20-1 [C07 ...]         apply to /repo, run ./check <pid> quick (default: the property it breaks),
                                                    record outcome, undo
"""
import os
import re
import sys
import json
import glob
import shutil
import subprocess
import xml.etree.ElementTree as ET

ROOT = os.path.dirname(os.path.dirname(os.path.abspath(__file__)))
SEEDED = os.path.join(ROOT, 'seeded')
BASE = json.load(open('/root/.vp/BASELINE.json'))


def sh(cmd, cwd=None, timeout=None, env=None):
    p = subprocess.run(cmd, shell=True, cwd=cwd, capture_output=True, text=True, timeout=timeout, env=env)
    return p.returncode, (p.stdout + p.stderr)


def do_import(pid, src):
    for d in sorted(glob.glob(os.path.join(src, 'mutants', '*'))):
        n = os.path.basename(d)
        if not (n.isdigit() and os.path.exists(os.path.join(d, 'patch.diff'))):
            continue
        dst = os.path.join(SEEDED, '%s-%s' % (pid, n))
        os.makedirs(dst, exist_ok=True)
        shutil.copy(os.path.join(d, 'patch.diff'), dst)
        demo = open(os.path.join(d, 'demo.py')).read()
        demo = demo.replace(src.rstrip('/'), "' + __import__('os').environ.get('WNTR_ROOT', '/repo') + '") if False else demo
        # make the demo portable: the agents hard-coded their worktree root
        demo = re.sub(r"(['\"])%s(/?)" % re.escape(src.rstrip('/')), lambda m: "__import__('os').environ.get('WNTR_ROOT', '/repo') + %s%s" % (m.group(1), m.group(2)), demo)
        open(os.path.join(dst, 'demo.py'), 'w').write(demo)
        meta = {}
        try:
            meta = json.load(open(os.path.join(d, 'meta.json')))
        except Exception as ex:
            meta = {'property': pid, 'summary': 'meta.json unreadable: %s' % ex}
        meta['property'] = pid
        meta['origin'] = 'independent sub-agent given only the property text and a scratch worktree'
        json.dump(meta, open(os.path.join(dst, 'meta.json'), 'w'), indent=1)
        print('imported', dst)


def run_demo(demo, root):
    env = dict(os.environ, WNTR_ROOT=root, PYTHONPATH=root, PYTHONWARNINGS='ignore')
    return sh('/venv/bin/python %s' % demo, cwd=root, timeout=1800, env=env)


def do_confirm(name, tests):
    d = os.path.join(SEEDED, name)
    meta = json.load(open(os.path.join(d, 'meta.json')))
    wt = '/tmp/wt/confirm-%s' % name
    sh('git -C /repo worktree remove --force %s' % wt)
    rc, out = sh('git -C /repo worktree add -q --detach %s HEAD' % wt)
    if rc:
        print(out)
        return 2
    try:
        for so in glob.glob('/repo/wntr/sim/*/_*.so'):
            shutil.copy(so, so.replace('/repo', wt))
        head = sh('git -C /repo rev-parse --short=8 HEAD')[1].strip()
        rc0, out0 = run_demo(os.path.join(d, 'demo.py'), wt)
        rca, outa = sh('git apply -3 %s' % os.path.join(d, 'patch.diff'), cwd=wt)
        if rca:
            rca, outa = sh('git apply %s' % os.path.join(d, 'patch.diff'), cwd=wt)
        conf = {'repo_head': head, 'demo_unpatched_exit': rc0, 'patch_applies': rca == 0}
        if rca == 0:
            if any(f.endswith('.cpp') for f in meta.get('files_changed', [])) or '.cpp' in open(os.path.join(d, 'patch.diff')).read():
                rcb, outb = sh('/venv/bin/python setup.py build_ext --inplace', cwd=wt, timeout=1800)
                conf['rebuilt_extensions'] = rcb == 0
            rc1, out1 = run_demo(os.path.join(d, 'demo.py'), wt)
            conf['demo_patched_exit'] = rc1
            conf['demo_patched_output'] = out1.strip().splitlines()[-1][:300] if out1.strip() else ''
            if tests:
                x = os.path.join(wt, 'junit.xml')
                cmd = BASE['cmd'].replace('cd /repo', 'cd ' + wt).replace('<file>', x) + ' -n 6'
                sh(cmd, timeout=7200)
                passed = set()
                for tc in ET.parse(x).getroot().iter('testcase'):
                    if not any(c.tag in ('failure', 'error', 'skipped') for c in tc):
                        passed.add('%s::%s' % (tc.get('classname'), tc.get('name')))
                missing = [t for t in BASE['stable_pass'] if t not in passed]
                if missing:  # xdist shares temp files in cwd: re-run the missing ones serially before believing them
                    ids = ' '.join('"%s"' % _nodeid(t) for t in missing)
                    x2 = os.path.join(wt, 'junit2.xml')
                    sh('cd %s && /venv/bin/python -m pytest -q -p no:cacheprovider --timeout=900 --junitxml=%s %s' % (wt, x2, ids), timeout=7200)
                    try:
                        for tc in ET.parse(x2).getroot().iter('testcase'):
                            if not any(c.tag in ('failure', 'error', 'skipped') for c in tc):
                                passed.add('%s::%s' % (tc.get('classname'), tc.get('name')))
                    except Exception:
                        pass
                    missing = [t for t in BASE['stable_pass'] if t not in passed]
                conf['test_suite'] = {'stable_pass': len(BASE['stable_pass']), 'missing_with_patch': missing}
        meta['confirmed'] = conf
        ok = conf.get('demo_unpatched_exit') == 0 and conf.get('demo_patched_exit') == 1 and (not tests or not conf['test_suite']['missing_with_patch'])
        meta['confirmed_ok'] = bool(ok) if tests else meta.get('confirmed_ok', None)
        meta['demo_ok'] = conf.get('demo_unpatched_exit') == 0 and conf.get('demo_patched_exit') == 1
        json.dump(meta, open(os.path.join(d, 'meta.json'), 'w'), indent=1)
        print(name, json.dumps(conf)[:600])
    finally:
        sh('git -C /repo worktree remove --force %s' % wt)
        shutil.rmtree(wt, ignore_errors=True)
    return 0


def _nodeid(t):
    cls, name = t.split('::', 1)
    parts = cls.split('.')
    # wntr.tests.test_x.TestY -> wntr/tests/test_x.py::TestY::name ; doctests: wntr.epanet.util -> wntr/epanet/util.py::wntr.epanet.util.X
    for k in range(len(parts), 0, -1):
        path = '/'.join(parts[:k]) + '.py'
        if os.path.exists(os.path.join('/repo', path)):
            rest = parts[k:]
            if rest:
                return '%s::%s::%s' % (path, '::'.join(rest), name)
            return '%s::%s' % (path, name)
    return t


def do_detect(name, pids):
    d = os.path.join(SEEDED, name)
    meta = json.load(open(os.path.join(d, 'meta.json')))
    pids = pids or [meta['property']]
    rc, out = sh('git -C /repo status --porcelain --untracked-files=no')
    if out.strip():
        print('refusing: /repo has uncommitted changes to tracked files:\n' + out)
        return 2
    rca, outa = sh('git -C /repo apply -3 %s' % os.path.join(d, 'patch.diff'))
    if rca:
        rca, outa = sh('git -C /repo apply %s' % os.path.join(d, 'patch.diff'))
    if rca:
        print('patch does not apply to /repo HEAD:', outa[-300:])
        meta.setdefault('detection', {})['error'] = 'patch does not apply to current /repo HEAD'
        json.dump(meta, open(os.path.join(d, 'meta.json'), 'w'), indent=1)
        sh('git -C /repo reset -q && git -C /repo checkout -- .')
        return 2
    try:
        for pid in pids:
            # evidence must describe runs on /repo itself: keep the file of the unchanged tree aside while the patched tree is checked
            ev = os.path.join(ROOT, 'evidence', '%s.json' % pid)
            keep = open(ev, 'rb').read() if os.path.exists(ev) else None
            try:
                rc, out = sh('./check %s quick' % pid, cwd=ROOT, timeout=3600)
            finally:
                if keep is not None:
                    open(ev, 'wb').write(keep)
            viol = [l for l in out.splitlines() if l.startswith('VIOLATION')]
            first = ''
            if viol:
                path = viol[0].split('replay=')[-1].strip()
                try:
                    first = json.load(open(path))['obligation']
                except Exception:
                    pass
            det = {'check': './check %s quick' % pid, 'exit': rc, 'violations': len(viol), 'first_violated_obligation': first,
                   'summary_line': [l for l in out.splitlines() if l.startswith('[')][-1:] or out[-200:]}
            meta.setdefault('detection', {})[pid] = det
            print(name, pid, 'exit', rc, 'violations', len(viol), first)
    finally:
        sh('git -C /repo reset -q && git -C /repo checkout -- .')
        sh('git -C /repo status --porcelain --untracked-files=no')
    json.dump(meta, open(os.path.join(d, 'meta.json'), 'w'), indent=1)
    return 0


if __name__ == '__main__':
    cmd = sys.argv[1]
    if cmd == 'import':
        do_import(sys.argv[2], sys.argv[3])
    elif cmd == 'confirm':
        sys.exit(do_confirm(sys.argv[2], '--tests' in sys.argv))
    elif cmd == 'detect':
        sys.exit(do_detect(sys.argv[2], [a for a in sys.argv[3:] if not a.startswith('-')]))

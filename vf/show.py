"""debug helper: python -m vf.show C20  -> compact view of the evidence file"""
import sys, json
e = json.load(open('/verif/evidence/%s.json' % sys.argv[1]))
c = e['coverage']
print('status', c['obligation_status'], 'wall', e['wall_s'])
seen=set()
for m in c['harness_errors'][:40]:
    key=m.strip().splitlines()[-1][:80]
    if key in seen: continue
    seen.add(key)
    lines = m.strip().splitlines()
    print('HE:', lines[0][:300])
    for l in lines[-4:]:
        print('     ', l[:200])
for m in c['inconclusive']:
    print('INC:', m[:300])
for s in c['spurious_counterexamples']:
    print('SPUR:', s['obligation'], s['output'][-300:])

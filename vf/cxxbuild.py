"""Rebuild WNTR's two C++ extension modules from the CURRENT sources in /repo into a scratch directory and load them, so that
checks which execute the compiled code see what the tree says now (not a stale .so).  Scratch directories live under /var/tmp
and are removed at exit."""
import os
import sys
import glob
import atexit
import shutil
import hashlib
import tempfile
import importlib
import subprocess
import sysconfig

REPO = '/repo'
_SCRATCH = []


def _cleanup():
    # only what THIS process built: a forked worker inherits the list of its parent, whose directories other workers may still load from
    me = os.getpid()
    for pid, d in list(_SCRATCH):
        if pid == me:
            shutil.rmtree(d, ignore_errors=True)
            _SCRATCH.remove((pid, d))


atexit.register(_cleanup)


def build(kind):
    """kind: 'network_isolation' | 'aml'.  returns the imported python shim module of the rebuilt extension"""
    import numpy
    src = os.path.join(REPO, 'wntr', 'sim', kind)
    base = 'network_isolation' if kind == 'network_isolation' else 'evaluator'
    d = tempfile.mkdtemp(prefix='vfcxx.', dir='/var/tmp')
    _SCRATCH.append((os.getpid(), d))
    pkg = os.path.join(d, 'vfcxx_' + kind)
    os.makedirs(pkg)
    open(os.path.join(pkg, '__init__.py'), 'w').write('')
    shutil.copy(os.path.join(src, base + '.py'), pkg)
    ext = sysconfig.get_config_var('EXT_SUFFIX')
    out = os.path.join(pkg, '_' + base + ext)
    cmd = ['g++', '-O1', '-shared', '-fPIC', '-std=c++11', '-I' + sysconfig.get_paths()['include'], '-I' + numpy.get_include(), '-I' + src,
           os.path.join(src, base + '.cpp'), os.path.join(src, base + '_wrap.cpp'), '-o', out]
    p = subprocess.run(cmd, capture_output=True, text=True)
    if p.returncode != 0:
        raise RuntimeError('g++ failed on %s: %s' % (kind, p.stderr[-800:]))
    sys.path.insert(0, d)
    try:
        mod = importlib.import_module('vfcxx_%s.%s' % (kind, base))
    finally:
        sys.path.remove(d)
    return mod


def source_hash(kind):
    src = os.path.join(REPO, 'wntr', 'sim', kind)
    h = hashlib.sha1()
    for f in sorted(glob.glob(os.path.join(src, '*.cpp')) + glob.glob(os.path.join(src, '*.hpp'))):
        if not f.endswith('_wrap.cpp'):
            h.update(open(f, 'rb').read())
    return h.hexdigest()[:12]

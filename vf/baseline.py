"""Run the repository's pinned test-suite (guard OFF) and compare with BASELINE.json's stable_pass list."""
import os, sys, json, subprocess, tempfile
import xml.etree.ElementTree as ET

def main():
    b = json.load(open('/root/.vp/BASELINE.json'))
    env = dict(os.environ)
    env.pop('USEPA_WNTR_VERIF', None)
    with tempfile.TemporaryDirectory(dir='/var/tmp') as d:
        x = os.path.join(d, 'junit.xml')
        cmd = b['cmd'].replace('<file>', x)
        extra = ' '.join(sys.argv[1:])
        subprocess.run(cmd + (' ' + extra if extra else ''), shell=True, env=env, stdout=subprocess.DEVNULL, stderr=subprocess.DEVNULL)
        passed = set()
        for tc in ET.parse(x).getroot().iter('testcase'):
            if not any(c.tag in ('failure', 'error', 'skipped') for c in tc):
                passed.add('%s::%s' % (tc.get('classname'), tc.get('name')))
    missing = [t for t in b['stable_pass'] if t not in passed]
    print('stable_pass=%d passed_now=%d missing=%d' % (len(b['stable_pass']), len(passed), len(missing)))
    for m in missing:
        print('MISSING', m)
    return 1 if missing else 0

if __name__ == '__main__':
    sys.exit(main())

"""Run the repository's pinned test-suite (guard OFF) and compare with BASELINE.json's stable_pass list.

  /venv/bin/python vf/baseline.py             in /repo itself
  /venv/bin/python vf/baseline.py --scratch   in a scratch worktree of /repo HEAD under /var/tmp (removed afterwards), so that
                                              seeded changes may be applied to /repo meanwhile
"""
import os, sys, json, subprocess, tempfile
import xml.etree.ElementTree as ET

def main():
    b = json.load(open('/root/.vp/BASELINE.json'))
    env = dict(os.environ)
    env.pop('USEPA_WNTR_VERIF', None)
    args = [a for a in sys.argv[1:] if a != '--scratch']
    wt = None
    if '--scratch' in sys.argv[1:]:
        import glob, shutil
        wt = tempfile.mkdtemp(dir='/var/tmp', prefix='wntr-baseline-')
        os.rmdir(wt)
        subprocess.run('git -C /repo worktree add -q --detach %s HEAD' % wt, shell=True, check=True)
        for so in glob.glob('/repo/wntr/sim/*/_*.so'):
            shutil.copy(so, so.replace('/repo', wt, 1))
    try:
        return _run(b, env, args, wt)
    finally:
        if wt:
            subprocess.run('git -C /repo worktree remove --force %s; git -C /repo worktree prune' % wt, shell=True)


def _run(b, env, args, wt):
    with tempfile.TemporaryDirectory(dir='/var/tmp') as d:
        x = os.path.join(d, 'junit.xml')
        cmd = b['cmd'].replace('<file>', x)
        if wt:
            cmd = cmd.replace('cd /repo', 'cd ' + wt)
        extra = ' '.join(args)
        subprocess.run(cmd + (' ' + extra if extra else ''), shell=True, env=env, stdout=subprocess.DEVNULL, stderr=subprocess.DEVNULL)
        passed = set()
        for tc in ET.parse(x).getroot().iter('testcase'):
            if not any(c.tag in ('failure', 'error', 'skipped') for c in tc):
                passed.add('%s::%s' % (tc.get('classname'), tc.get('name')))
    missing = [t for t in b['stable_pass'] if t not in passed]
    print('stable_pass=%d passed_now=%d missing=%d' % (len(b['stable_pass']), len(passed), len(missing)))
    for m in missing:
        print('MISSING', m)
    return 1 if missing else 0

if __name__ == '__main__':
    sys.exit(main())

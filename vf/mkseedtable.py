"""Regenerate the seeded-change table in DESIGN.md from seeded/*/meta.json (python3 vf/mkseedtable.py)."""
import os, json, glob, re
ROOT = os.path.dirname(os.path.dirname(os.path.abspath(__file__)))
rows = ['| change | what it breaks (one line) | test-suite with patch | caught by | first violated obligation |', '|---|---|---|---|---|']
for d in sorted(glob.glob(os.path.join(ROOT, 'seeded', '*')), key=lambda p: (p.split('/')[-1].split('-')[0], p)):
    m = json.load(open(os.path.join(d, 'meta.json')))
    name = os.path.basename(d)
    det = m.get('detection', {})
    det = {k: v for k, v in det.items() if isinstance(v, dict)}
    caught = [k for k, v in det.items() if v.get('exit') == 1]
    missed = [k for k, v in det.items() if v.get('exit') != 1]
    first = next((v.get('first_violated_obligation', '') for v in det.values() if v.get('exit') == 1), '')
    ok = m.get('confirmed_ok')
    ts = 'passes' if ok else ('not run' if ok is None else 'FAILS')
    summ = re.sub(r'\s+', ' ', m.get('summary', ''))[:150].replace('|', '/')
    rows.append('| %s | %s | %s | %s | `%s` |' % (name, summ, ts, (', '.join('%s quick' % c for c in caught) + (' (not by %s)' % ', '.join(missed) if missed and caught else '')) or ('MISSED by ' + ', '.join(missed) if missed else 'not run'), first[:70]))
p = os.path.join(ROOT, 'DESIGN.md')
s = open(p).read()
block = '<!-- SEEDED-TABLE -->\n' + '\n'.join(rows) + '\n<!-- /SEEDED-TABLE -->'
if '<!-- /SEEDED-TABLE -->' in s:
    s = re.sub(r'<!-- SEEDED-TABLE -->.*?<!-- /SEEDED-TABLE -->', lambda _: block, s, flags=re.S)
else:
    s = s.replace('<!-- SEEDED-TABLE -->', block)
open(p, 'w').write(s)
print(len(rows) - 2, 'rows')

"""Control-plane harness: the REAL WNTRSimulator.run_sim with only the Newton solve replaced.

What is replaced, inside the checking process only:
  * wntr.sim.aml.aml.Evaluator -> vf.amlsmt.PyEvaluator (value container; lets model variables hold proxies)
  * wntr.sim.core._solver_helper -> a stub that writes a "solution" chosen by a policy into m.flow / m.head /
    m.demand / m.leak_rate (contract H: closed or isolated links carry zero flow; everything else is whatever
    the policy says - fresh symbolic values, values forked from a finite set, or constants) and returns
    `converged` (or the status a fault schedule dictates)
  * wntr.sim.hydraulics.get_results -> keeps the recorded lists (the real one builds numeric DataFrames;
    it is exercised by C16 on concrete paths)
  * polymorphic int/float/isinstance/math/np in wntr.sim.core, wntr.sim.hydraulics, wntr.network.controls,
    wntr.network.elements, wntr.network.model
Everything else is the real code: create_hydraulic_model, ModelUpdater, all control managers incl. internal
tank/CV/pump/valve controls, presolve backtracking, rule grid, post-solve loop, update_tank_heads,
store_results_in_network, save_results, isolation bookkeeping (numpy / C++ run concretely per path).
"""
import contextlib
import warnings

import wntr
import wntr.sim.core as core
import wntr.sim.hydraulics as hyd
import wntr.network.controls as controls
import wntr.network.elements as elements
import wntr.network.model as nmodel
import wntr.network.base as nbase
from wntr.sim.solvers import SolverStatus
from wntr.network.base import LinkStatus

from . import symx, amlsmt
from .symx import Sym

STUBS = amlsmt.STUBS + [
    'wntr.sim.core._solver_helper -> policy stub under contract H (closed/isolated link => zero flow)',
    'wntr.sim.hydraulics.get_results -> recorder of the raw per-element lists',
    'int/float/isinstance/math/np shims in wntr.sim.core, wntr.sim.hydraulics, wntr.network.controls, wntr.network.elements, wntr.network.model',
]


class Plane:
    """policy(plane, wn, model) assigns the model variables for the solve that is about to be 'returned'.
    fault(plane) -> SolverStatus for this call (default: converged)."""

    def __init__(self, policy, fault=None):
        self.policy = policy
        self.fault = fault
        self.calls = 0          # number of _solver_helper calls so far on this path
        self.solves = []        # (sim_time, trial-independent index) per call
        self.wn = None
        self.sim = None
        self.audit = False      # compare the incremental model with a fresh build at every solve
        self.stale = []
        self.kw = {}

    def _audit(self, model):
        """the incrementally updated model must be the model a fresh build gives for the network's current state
        (same rows, same expressions, same parameter values): a missed or mis-registered update shows here"""
        fresh, _ = hyd.create_hydraulic_model(wn=self.wn, HW_approx=self.kw.get('HW_approx', 'default'))
        a, b = model_signature(model), model_signature(fresh)
        for k_ in sorted(set(a) | set(b)):
            if a.get(k_) != b.get(k_):
                va, vb = a.get(k_), b.get(k_)
                if isinstance(va, float) and isinstance(vb, float) and abs(va - vb) <= 1e-9 * max(1.0, abs(va), abs(vb)):
                    continue
                self.stale.append('at t=%s the model row/parameter %s is %s, a model built from the current network state has %s' % (
                    self.wn.sim_time, k_, _short(va), _short(vb)))
                return

    def _solver_helper(self, model, solver, solver_options):
        model.set_structure()      # as the real _solver_helper does: a model that is not square is refused here
        if self.audit and not self.stale:
            self._audit(model)
        k = self.calls
        self.calls += 1
        self.solves.append(self.wn.sim_time)
        status = SolverStatus.converged
        if self.fault is not None:
            status = self.fault(self, k, solver)
        # the real _solver_helper reports an iteration count for the Newton solver only (None for the scipy solvers)
        from wntr.sim.solvers import NewtonSolver as _Newton
        it = 1 if solver is _Newton else None
        if status == SolverStatus.converged:
            self.policy(self, self.wn, model)
            return SolverStatus.converged, 'Solved Successfully', it
        return SolverStatus.error, 'stub: solve failed', it

    def run(self, wn, **kw):
        self.wn = wn
        self.calls = 0
        self.solves = []
        self.last_q = 0.0
        self.tank_q = 0.0
        self.stale = []
        self.kw = kw
        self.sim = wntr.sim.WNTRSimulator(wn)
        with warnings.catch_warnings():
            warnings.simplefilter('ignore')
            return self.sim.run_sim(**kw)


def rerun_same_simulator(plane, **kw):
    """run_sim once more on the simulator object of the last Plane.run (the documented run / reset_initial_values / run pattern)"""
    plane.calls = 0
    plane.solves = []
    plane.stale = []
    with warnings.catch_warnings():
        warnings.simplefilter('ignore')
        return plane.sim.run_sim(**kw)


def _short(v):
    v = 'absent' if v is None else str(v)
    return v if len(v) < 160 else v[:157] + '...'


def model_signature(m):
    """{name: text or value} for every constraint, parameter and variable of an aml model"""
    import wntr.sim.aml.aml as aml
    import wntr.sim.aml.expr as expr
    out = {}
    for attr, val in vars(m).items():
        if attr.startswith('_'):
            continue
        if isinstance(val, aml.Constraint):
            out['con:' + attr] = str(val.expr)
        elif isinstance(val, aml.ConstraintDict):
            for k, c in val.items():
                out['con:%s[%s]' % (attr, k)] = str(c.expr)
        elif isinstance(val, aml.ParamDict):
            for k, p_ in val.items():
                v = p_.value
                out['param:%s[%s]' % (attr, k)] = float(v) if isinstance(v, (int, float)) else 'symbolic'
        elif isinstance(val, aml.VarDict):
            for k in val:
                out['var:%s[%s]' % (attr, k)] = 'var'
        elif isinstance(val, expr.Param):
            v = val.value
            out['param:' + attr] = float(v) if isinstance(v, (int, float)) else 'symbolic'
    return out


def _get_results(wn, results, node_res, link_res):
    results.node = node_res
    results.link = link_res
    try:
        if all(isinstance(t, int) for t in results.time) and not _any_sym(node_res) and not _any_sym(link_res):
            _REAL_GET_RESULTS(wn, results, {k: dict(v) for k, v in node_res.items()}, {k: dict(v) for k, v in link_res.items()})
            results.frames = True
            results.node_frames, results.link_frames = results.node, results.link
            results.node, results.link = node_res, link_res
    except Exception as ex:  # shape problems are C16's subject; keep the raw lists here
        results.frames_error = ex


def _any_sym(res):
    for k, d in res.items():
        for name, lst in d.items():
            for v in lst:
                if isinstance(v, (Sym, symx.SymB)):
                    return True
    return False


_REAL_GET_RESULTS = hyd.get_results
_CUR = [None]


@contextlib.contextmanager
def installed(plane):
    undo = []
    mods = [(core, ('int', 'float', 'isinstance', 'math', 'np')), (hyd, ('math', 'np', 'isinstance')),
            (controls, ('int', 'float', 'isinstance', 'math', 'np')), (elements, ('int', 'float', 'isinstance', 'math', 'np')),
            (nmodel, ('int', 'float', 'isinstance')), (nbase, ('int', 'float', 'isinstance'))]
    for m, names in mods:
        names = tuple(n for n in names if n in ('int', 'float', 'isinstance') or n in m.__dict__)
        undo.append(symx.install_shims(m, names))
    saved = (core._solver_helper, hyd.get_results)
    core._solver_helper = plane._solver_helper
    hyd.get_results = _get_results
    try:
        with amlsmt.installed():
            yield plane
    finally:
        core._solver_helper, hyd.get_results = saved
        for u in undo:
            u()


# ---------------------------------------------------------------------------------------------------------
# solution policies
# ---------------------------------------------------------------------------------------------------------
def _closed(link):
    return link._is_isolated or link.status == LinkStatus.Closed


def const_policy(flow=0.01, head=50.0):
    """every open link carries `flow`, every junction has head `head` (time controls need no hydraulics)"""
    def policy(plane, wn, m):
        for name, link in wn.links():
            if name in m.flow:
                m.flow[name].value = 0.0 if _closed(link) else flow
        for name, node in wn.junctions():
            if name in m.head:
                m.head[name].value = head + node.elevation
            if hasattr(m, 'demand') and name in m.demand:
                m.demand[name].value = m.expected_demand[name].value
        _leaks(wn, m, lambda name: 0.0)
    return policy


def _leaks(wn, m, f):
    """the solver only touches variables that occur in the model: a leak variable without a leak row keeps its (stale) value"""
    if hasattr(m, 'leak_rate'):
        for name in list(m.leak_rate.keys()) if hasattr(m.leak_rate, 'keys') else []:
            if hasattr(m, 'leak_con') and name in m.leak_con:
                m.leak_rate[name].value = f(name)


def table_policy(flow_of, head_of=None, leak_of=None):
    """flow_of(plane, wn, link_name) / head_of(plane, wn, node_name) give the values for the current solve"""
    def policy(plane, wn, m):
        for name, link in wn.links():
            if name in m.flow:
                m.flow[name].value = 0.0 if _closed(link) else flow_of(plane, wn, name)
        for name, node in wn.junctions():
            if name in m.head:
                m.head[name].value = head_of(plane, wn, name) if head_of else 50.0 + node.elevation
            if hasattr(m, 'demand') and name in m.demand:
                m.demand[name].value = m.expected_demand[name].value
        _leaks(wn, m, (lambda n: leak_of(plane, wn, n)) if leak_of else (lambda n: 0.0))
    return policy


# ---------------------------------------------------------------------------------------------------------
# reading the recorded run
# ---------------------------------------------------------------------------------------------------------
def series(results, kind, table, name):
    """list of recorded values of one element (aligned with results.time)"""
    return (results.node if kind == 'node' else results.link)[table][name]

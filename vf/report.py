"""Obligation bookkeeping, counterexample replay, known findings, evidence files, exit codes."""
import os
import re
import sys
import json
import time
import hashlib
import inspect
import subprocess
import traceback

import z3

from . import symx

ROOT = os.path.dirname(os.path.dirname(os.path.abspath(__file__)))
EXIT_OK, EXIT_VIOLATION, EXIT_HARNESS = 0, 1, 2
REPRODUCED = 10  # exit code of vf.replay when the violation reproduces on the real code


def _load_known():
    p = os.path.join(ROOT, 'known_findings.json')
    if not os.path.exists(p):
        return []
    return json.load(open(p)).get('findings', [])


def _jsonable(x):
    if isinstance(x, dict):
        return {str(k): _jsonable(v) for k, v in x.items()}
    if isinstance(x, (list, tuple)):
        return [_jsonable(v) for v in x]
    if isinstance(x, (int, float, str, bool)) or x is None:
        return x
    return str(x)


class Report:
    def __init__(self, pid, tier='quick', seed=0, sub=False):
        self.pid = pid
        self.tier = tier
        self.seed = seed
        self.sub = sub
        self.t0 = time.time()
        self.records = []  # obligation records
        self.functions = {}  # qualified name -> sha1 of source
        self.bounds = []
        self.assumptions = []
        self.stubs = []
        self.templates = []
        self.explanation = ''
        self.paths = 0
        self.lines = []  # VIOLATION / KNOWN-FINDING lines
        self.harness_errors = []
        self.inconclusive = []
        self.spurious = []
        self.samples = []
        self.extra = {}
        self.known = _load_known()
        symx.STATS.reset()
        if not sub:
            d = os.path.join(ROOT, 'replays', pid)
            if os.path.isdir(d):
                for f in os.listdir(d):
                    if f.endswith('.json'):
                        os.unlink(os.path.join(d, f))

    # ---- description of what is encoded
    def encode(self, *objs):
        for o in objs:
            try:
                src = inspect.getsource(o)
                mod = getattr(o, '__module__', None) or getattr(getattr(o, 'fget', None), '__module__', '')
                name = '%s.%s' % (mod, getattr(o, '__qualname__', getattr(o, '__name__', str(o))))
            except (TypeError, OSError):
                src = repr(o)
                name = repr(o)
            self.functions[name] = hashlib.sha1(src.encode()).hexdigest()[:12]

    def encode_file(self, path):
        self.functions[path] = hashlib.sha1(open(path, 'rb').read()).hexdigest()[:12]

    def bound(self, text):
        if text not in self.bounds:
            self.bounds.append(text)

    def assume(self, text):
        if text not in self.assumptions:
            self.assumptions.append(text)

    def stub(self, text):
        if text not in self.stubs:
            self.stubs.append(text)

    # ---- deciding
    def _rec(self, name, status, seconds=0.0, **kw):
        r = dict(name=name, status=status, seconds=round(seconds, 4))
        r.update(kw)
        self.records.append(r)
        return r

    def prove(self, name, constraints, claim, witness=None, replay=None, timeout_ms=None, sample=None):
        """Decide `constraints => claim`.  On sat, `witness(model)` yields the concrete inputs, which
        are replayed on the real code by replay kind `replay`.  Returns True iff discharged."""
        if timeout_ms is None:
            timeout_ms = 20000 if self.tier == 'quick' else 120000
        v = symx.decide(constraints, claim, timeout_ms)
        if v.status == 'unsat':
            self._rec(name, 'unsat', v.seconds)
            if sample is not None and len(self.samples) < 12:
                self.samples.append({'obligation': name, 'claim': str(sample)[:400]})
            return True
        if v.status == 'unknown':
            self._rec(name, 'unknown', v.seconds, reason=v.reason)
            self.inconclusive.append('%s: solver unknown (%s)' % (name, v.reason))
            return False
        inputs = {}
        if witness is not None:
            try:
                inputs = witness(v.model)
            except BaseException as ex:  # noqa
                self.harness_errors.append('%s: witness extraction failed: %r' % (name, ex))
                self._rec(name, 'sat-nowitness', v.seconds)
                return False
        self.counterexample(name, inputs, replay, seconds=v.seconds)
        return False

    def reach(self, name, constraints, timeout_ms=20000):
        """reachability twin: the assumptions of a harness must be satisfiable"""
        v = symx.satisfiable(constraints, timeout_ms)
        if v.status == 'sat':
            self._rec(name + '/reach', 'reach-sat', v.seconds)
            return True
        self._rec(name + '/reach', 'reach-' + v.status, v.seconds)
        if v.status == 'unsat':
            self.harness_errors.append('%s: vacuous harness (assumptions unsatisfiable)' % name)
        else:
            self.inconclusive.append('%s: reachability unknown' % name)
        return False

    def discharged(self, name, seconds=0.0, sample=None, **kw):
        """an obligation decided by exhausted path enumeration (each path's check done by caller)"""
        self._rec(name, 'unsat', seconds, **kw)
        if sample is not None and len(self.samples) < 12:
            self.samples.append({'obligation': name, 'case': _jsonable(sample)})

    def counterexample(self, name, inputs, replay, seconds=0.0):
        """A candidate violation with concrete inputs: replay on the real code, then classify."""
        inputs = _jsonable(inputs)
        doc = {'property': self.pid, 'obligation': name, 'kind': replay, 'inputs': inputs}
        h = hashlib.sha1(json.dumps(doc, sort_keys=True).encode()).hexdigest()[:10]
        d = os.path.join(ROOT, 'replays', self.pid)
        os.makedirs(d, exist_ok=True)
        safe = re.sub(r'[^A-Za-z0-9_.-]+', '_', name)[:80]
        path = os.path.join(d, '%s-%s.json' % (safe, h))
        json.dump(doc, open(path, 'w'), indent=1, sort_keys=True)
        if sum(1 for l in self.lines if l.startswith('VIOLATION')) >= 40:
            self._rec(name, 'violation-unreplayed', seconds, replay=path, note='more than 40 violations already confirmed in this run')
            return
        if replay is None:
            self.harness_errors.append('%s: sat but no replay defined' % name)
            self._rec(name, 'sat-noreplay', seconds, replay=path)
            return
        code, out = run_replay(path)
        if code == REPRODUCED:
            k = self._known(name, inputs)
            msg = out.strip().splitlines()[-1] if out.strip() else ''
            if k is not None:
                line = 'KNOWN-FINDING: property=%s %s' % (self.pid, k['what'])
                if line not in self.lines:
                    self.lines.append(line)
                self._rec(name, 'known-finding', seconds, replay=path, finding=k.get('id'), observed=msg[:300])
            else:
                self.lines.append('VIOLATION property=%s replay=%s' % (self.pid, path))
                self._rec(name, 'violation', seconds, replay=path, observed=msg[:300])
        elif code == 0:
            self.spurious.append({'obligation': name, 'replay': path, 'output': out[-300:]})
            self._rec(name, 'spurious', seconds, replay=path)
        else:
            self.harness_errors.append('%s: replay crashed (exit %s): %s' % (name, code, out[-600:]))
            self._rec(name, 'replay-error', seconds, replay=path)

    def _known(self, name, inputs):
        for k in self.known:
            if k.get('property') != self.pid:
                continue
            if not re.fullmatch(k.get('obligation', '.*'), name):
                continue
            w = k.get('where')
            if w:
                try:
                    if not eval(w, {'__builtins__': {'abs': abs, 'len': len, 'min': min, 'max': max, 'str': str, 'int': int, 'float': float, 'any': any, 'all': all, 'isinstance': isinstance}}, dict(inputs, inputs=dict(inputs))):
                        continue
                except Exception:
                    continue
            return k
        return None

    def harness_error(self, msg):
        self.harness_errors.append(msg)

    # ---- sub-reports for process pools
    def export(self):
        return dict(records=self.records, functions=self.functions, bounds=self.bounds, assumptions=self.assumptions,
                    stubs=self.stubs, lines=self.lines, harness_errors=self.harness_errors, inconclusive=self.inconclusive,
                    spurious=self.spurious, samples=self.samples, paths=self.paths, stats=symx.STATS.as_dict(), extra=self.extra,
                    templates=self.templates)

    def absorb(self, ex):
        self.records += ex['records']
        self.functions.update(ex['functions'])
        for k in ('bounds', 'assumptions', 'stubs', 'lines', 'templates'):
            for t in ex[k]:
                if t not in getattr(self, k):
                    getattr(self, k).append(t)
        self.harness_errors += ex['harness_errors']
        self.inconclusive += ex['inconclusive']
        self.spurious += ex['spurious']
        for s in ex['samples']:
            if len(self.samples) < 12:
                self.samples.append(s)
        self.paths += ex['paths']
        for k, v in ex['extra'].items():
            if isinstance(v, (int, float)) and isinstance(self.extra.get(k, 0), (int, float)):
                self.extra[k] = self.extra.get(k, 0) + v
            else:
                self.extra[k] = v
        st = symx.STATS
        for k, v in ex['stats'].items():
            setattr(st, k, getattr(st, k) + v)

    # ---- finish
    def finish(self):
        st = symx.STATS
        wall = time.time() - self.t0
        by = {}
        for r in self.records:
            by[r['status']] = by.get(r['status'], 0) + 1
        obligations = [r for r in self.records if not r['status'].startswith('reach')]
        n_ob = len(obligations)
        n_dis = by.get('unsat', 0)
        distinct = len({r['name'] for r in obligations})
        viol = by.get('violation', 0)
        if not self.samples:
            self.samples = [{'obligation': r['name'], 'status': r['status']} for r in obligations[:5]]
        ev = {
            'property_id': self.pid, 'tier': self.tier, 'seed': self.seed, 'level': 'other',
            'coverage': {
                'explanation': self.explanation or 'bounded symbolic execution of the real code + SMT (z3) decision of each obligation',
                'evaluations': st.queries + st.feas_queries,
                'distinct_nontrivial': distinct,
                'rule': 'evaluations = SMT queries (obligation + path-feasibility); distinct_nontrivial = distinct obligation names '
                        '(obligation x template x configuration) decided by the solver or by exhausted symbolic path enumeration',
                'samples': self.samples[:12],
                'obligations': n_ob, 'discharged': n_dis,
                'obligation_status': by,
                'functions_encoded': self.functions,
                'bounds': self.bounds,
                'stubs_and_shims': self.stubs,
                'templates': self.templates,
                'paths_explored': st.paths + self.paths,
                'paths_infeasible': st.aborted_paths,
                'queries': {'obligation_queries': st.queries, 'unsat': st.unsat, 'sat': st.sat, 'unknown': st.unknown,
                            'feasibility_queries': st.feas_queries},
                'solver_seconds': round(st.solver_s + st.feas_s, 3),
                'solver': 'z3 ' + z3.get_version_string(),
                'spurious_counterexamples': self.spurious,
                'inconclusive': self.inconclusive[:50],
                'harness_errors': self.harness_errors[:50],
                'known_findings_hit': [l for l in self.lines if l.startswith('KNOWN-FINDING')],
                'exhaustive': False,
            },
            'assumptions': self.assumptions,
            'wall_s': round(wall, 2),
            'violations': viol,
        }
        ev['coverage'].update(self.extra)
        os.makedirs(os.path.join(ROOT, 'evidence'), exist_ok=True)
        json.dump(ev, open(os.path.join(ROOT, 'evidence', self.pid + '.json'), 'w'), indent=1)
        for l in self.lines:
            print(l)
        print('[%s %s] obligations=%d discharged=%d status=%s paths=%d queries=%d solver=%.1fs wall=%.1fs' % (
            self.pid, self.tier, n_ob, n_dis, by, st.paths + self.paths, st.queries + st.feas_queries, st.solver_s + st.feas_s, wall))
        if viol:
            return EXIT_VIOLATION
        if self.harness_errors or self.inconclusive or self.spurious:
            for m in (self.harness_errors + self.inconclusive)[:20]:
                print('HARNESS/INCONCLUSIVE:', m)
            for s in self.spurious[:10]:
                print('SPURIOUS (not reproduced on real code):', s['obligation'], s['replay'])
            return EXIT_HARNESS
        if n_ob == 0:
            print('HARNESS: no obligations were generated')
            return EXIT_HARNESS
        return EXIT_OK


_SERVER = [None]


def _server():
    if _SERVER[0] is None or _SERVER[0].poll() is not None:
        env = dict(os.environ)
        env['PYTHONPATH'] = ROOT + os.pathsep + env.get('PYTHONPATH', '')
        env['PYTHONWARNINGS'] = 'ignore'
        _SERVER[0] = subprocess.Popen([sys.executable, '-m', 'vf.replay', '--server'], cwd=ROOT, env=env, stdin=subprocess.PIPE,
                                      stdout=subprocess.PIPE, stderr=subprocess.DEVNULL, text=True, bufsize=1)
    return _SERVER[0]


def run_replay(path, timeout=600):
    """Replay against the real, unshimmed code in a separate process (kept alive for the run: the
    import of wntr dominates the cost of a replay)."""
    try:
        p = _server()
        p.stdin.write(path + '\n')
        p.stdin.flush()
        import select
        while True:
            rl, _, _ = select.select([p.stdout], [], [], timeout)
            if not rl:
                p.kill()
                return -9, 'replay timed out'
            line = p.stdout.readline()
            if not line:
                return 70, 'replay server died'
            if line.startswith('@@REPLAY '):
                break
        d = json.loads(line[len('@@REPLAY '):])
        return d['code'], d['out']
    except (OSError, ValueError) as ex:
        return 70, 'replay server error: %s' % ex


def run_replay_fresh(path, timeout=600):
    env = dict(os.environ)
    env['PYTHONPATH'] = ROOT + os.pathsep + env.get('PYTHONPATH', '')
    env['PYTHONWARNINGS'] = 'ignore'
    try:
        p = subprocess.run([sys.executable, '-m', 'vf.replay', path], cwd=ROOT, env=env, capture_output=True, text=True, timeout=timeout)
        return p.returncode, (p.stdout + p.stderr)
    except subprocess.TimeoutExpired:
        return -9, 'replay timed out'


def guarded(rep, name, fn, *a, **kw):
    """run one harness; translate engine exceptions into report entries"""
    try:
        return fn(*a, **kw)
    except symx.Inconclusive as ex:
        rep.inconclusive.append('%s: %s' % (name, ex))
    except symx.HarnessError as ex:
        rep.harness_errors.append('%s: %s' % (name, ex))
    except Exception as ex:  # a crash of the code under test outside a declared raises
        rep.harness_errors.append('%s: unexpected %s: %s\n%s' % (name, type(ex).__name__, ex, traceback.format_exc()[-1500:]))
    return None


# ---- process-pool fan-out: each task runs in a forked worker with its own sub-report -----------------
def _worker(job):
    pid, tier, seed, name, fn, args = job
    symx.STATS.reset()
    sub = Report(pid, tier, seed, sub=True)
    try:
        guarded(sub, name, fn, sub, *args)
        return sub.export()
    finally:
        # pool workers leave through os._exit: atexit handlers do not run, so the scratch of rebuilt extensions is removed here
        from . import cxxbuild
        cxxbuild._cleanup()


def run_parallel(rep, tasks, workers=None):
    """tasks: list of (name, fn, args) with fn(sub_report, *args) a module-level function"""
    import multiprocessing as mp
    if not tasks:
        return
    workers = min(workers or int(os.environ.get('VERIF_WORKERS', '14')), len(tasks))
    jobs = [(rep.pid, rep.tier, rep.seed, name, fn, tuple(args)) for name, fn, args in tasks]
    if workers <= 1:
        for j in jobs:
            rep.absorb(_worker(j))
        return
    ctx = mp.get_context('fork')
    with ctx.Pool(workers, maxtasksperchild=1) as pool:
        for ex in pool.imap_unordered(_worker, jobs, chunksize=1):
            rep.absorb(ex)

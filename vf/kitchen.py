"""The "kitchen-sink" model K used by the serialisation properties (C12 INP, C13 dict/JSON): every element type and
optional feature the formats carry, built through the public API, with (nearly) every numeric attribute replaced by a
proxy afterwards (private attributes are assigned directly so that setters' float() conversions do not interfere).

build(V, opts) -> (wn, syms) where syms maps a readable path to the proxy (for witness extraction).
"""
import numpy as np

import wntr
from wntr.network.base import LinkStatus
from wntr.network.controls import (Control, ControlAction, SimTimeCondition, TimeOfDayCondition, ValueCondition, Comparison, Rule,
                                   ControlPriority, AndCondition, OrCondition)


def build(V, opts=None):
    o = dict(leaks=False, controls=True, rules=True, quality=True, gpv=False, sym=True, vertices=True)
    o.update(opts or {})
    wn = wntr.network.WaterNetworkModel()
    wn.name = 'kitchen sink'
    t = wn.options.time
    t.duration = 4 * 3600
    t.hydraulic_timestep = 1800
    t.quality_timestep = 300
    t.rule_timestep = 360
    t.pattern_timestep = 7200
    t.pattern_start = 3600
    t.report_timestep = 3600
    t.report_start = 0
    t.start_clocktime = 2 * 3600
    t.statistic = 'NONE'
    for k_, v_ in (o.get('times') or {}).items():
        setattr(t, k_, v_)
    h = wn.options.hydraulic
    h.demand_multiplier = 1.25
    h.specific_gravity = 0.998
    h.viscosity = 1.1
    h.emitter_exponent = 0.6
    h.trials = 50
    h.accuracy = 0.002
    h.unbalanced = 'CONTINUE'
    h.unbalanced_value = 10
    h.checkfreq = 3
    h.maxcheck = 12
    h.damplimit = 0.5
    h.headerror = 0.001
    h.flowchange = 0.002
    h.demand_model = 'PDA'
    h.minimum_pressure = 1.5
    h.required_pressure = 25.0
    h.pressure_exponent = 0.55
    for k_, v_ in (o.get('hyd') or {}).items():
        setattr(h, k_, v_)
    if o['quality']:
        wn.options.quality.parameter = 'CHEMICAL'
        wn.options.quality.chemical_name = 'Cl2'
        wn.options.quality.inpfile_units = 'mg/L'
        wn.options.quality.diffusivity = 1.3
        wn.options.quality.tolerance = 0.02
        r = wn.options.reaction
        r.bulk_order, r.wall_order, r.tank_order = o.get('orders', (1.0, 1, 1.0))
        r.bulk_coeff, r.wall_coeff = -1.2e-5, -2.0e-6
        r.limiting_potential = 0.5
        r.roughness_correl = 0.1
    e = wn.options.energy
    e.global_price, e.global_efficiency, e.demand_charge = 3.5e-8, 72.0, 1.5
    wn.add_pattern('PAT1', [1.0, 1.2, 0.8])
    wn.add_pattern('PAT2', [0.5, 1.5])
    wn.add_pattern('SPD', [1.0, 0.9])
    wn.add_pattern('PRC', [1.0, 2.0])
    e.global_pattern = 'PRC'
    h.pattern = 'PAT1'
    wn.add_curve('HC1', 'HEAD', [(0.05, 30.0)])
    wn.add_curve('HC3', 'HEAD', [(0.0, 40.0), (0.05, 30.0), (0.1, 10.0)])
    wn.add_curve('VOL', 'VOLUME', [(0.0, 0.0), (2.0, 150.0), (9.0, 900.0)])
    wn.add_curve('EFF', 'EFFICIENCY', [(0.02, 50.0), (0.06, 75.0), (0.1, 60.0)])
    wn.add_reservoir('R1', base_head=55.0, head_pattern='PAT2', coordinates=(0.0, 0.0))
    wn.add_reservoir('R2', base_head=20.0, coordinates=(0.0, 50.0))
    wn.add_tank('T1', elevation=30.0, init_level=3.0, min_level=1.0, max_level=6.0, diameter=10.0, min_vol=12.0, coordinates=(100.0, 20.0))
    wn.add_tank('T2', elevation=28.0, init_level=4.0, min_level=1.0, max_level=8.0, diameter=9.0, vol_curve='VOL', overflow=True, coordinates=(120.0, 40.0))
    wn.add_junction('J1', base_demand=0.01, demand_pattern='PAT1', elevation=5.0, coordinates=(10.0, 5.0), demand_category='dom')
    wn.get_node('J1').add_demand(0.004, 'PAT2', 'ind')
    wn.get_node('J1').add_demand(0.001, None, None)
    wn.add_junction('J2', base_demand=0.02, demand_pattern=None, elevation=7.0, coordinates=(30.0, 15.0))
    wn.add_junction('J3', base_demand=0.0, elevation=2.0, coordinates=(50.0, 25.0))
    wn.add_junction('J4', base_demand=0.005, demand_pattern='PAT2', elevation=3.0, coordinates=(70.0, 5.0))
    wn.add_junction('J5', base_demand=0.003, elevation=4.0, coordinates=(90.0, 10.0))
    wn.add_junction('J6', base_demand=0.002, elevation=6.0, coordinates=(95.0, 30.0))
    j1, j2 = wn.get_node('J1'), wn.get_node('J2')
    j1.emitter_coefficient = 0.0004
    j1.tag = 'zoneA'
    if o['quality']:
        j1.initial_quality = 0.5
        wn.get_node('T1').initial_quality = 1.0
        wn.get_node('T1').bulk_coeff = -3.0e-6
        wn.get_node('T2').mixing_model = '2COMP'
        wn.get_node('T2').mixing_fraction = 0.4
    for tn_, mm_ in (o.get('mixing') or {}).items():
        # as the INP reader's [MIXING] section sets it: a MixType member
        from wntr.epanet.util import MixType
        wn.get_node(tn_).mixing_model = MixType[mm_]
    for tn_, f_ in (o.get('mixfrac') or {}).items():
        wn.get_node(tn_).mixing_fraction = f_          # concrete special values (0.0: an empty first compartment)
    for pn_ in (o.get('nowrap') or ()):
        wn.get_pattern(pn_).wrap = False               # a pattern that ends instead of repeating
    wn.get_node('T1').tag = 'tankTag'
    wn.add_pipe('P1', 'R1', 'J1', length=100.0, diameter=0.3, roughness=100.0, minor_loss=0.0)
    wn.add_pipe('P2', 'J1', 'J2', length=150.0, diameter=0.25, roughness=110.0, minor_loss=2.5, check_valve=True)
    wn.add_pipe('P3', 'J2', 'J3', length=120.0, diameter=0.2, roughness=120.0, initial_status='CLOSED')
    wn.add_pipe('P4', 'J3', 'T1', length=130.0, diameter=0.2, roughness=90.0)
    wn.add_pipe('P5', 'J5', 'T2', length=80.0, diameter=0.3, roughness=100.0)
    wn.add_pipe('P6', 'J6', 'J5', length=60.0, diameter=0.15, roughness=130.0)
    p2, p3 = wn.get_link('P2'), wn.get_link('P3')
    p2.tag = 'mainline'
    if o['quality']:
        p2.bulk_coeff = -1.0e-5
        p3.wall_coeff = -4.0e-6
    if o['vertices']:
        p2.vertices = [(15.0, 6.0), (20.0, 12.0)]
    wn.add_pump('PU1', 'R2', 'J4', 'HEAD', 'HC3', speed=1.0, pattern='SPD')
    wn.add_pump('PU2', 'R2', 'J3', 'POWER', 4000.0)
    wn.add_pump('PU3', 'J2', 'J4', 'HEAD', 'HC1', initial_status='CLOSED')
    pu1 = wn.get_link('PU1')
    pu1.energy_price = 4.0e-8
    pu1.energy_pattern = 'PRC'
    pu1.efficiency = wn.get_curve('EFF')
    if o['vertices']:
        pu1.vertices = [(40.0, 40.0)]
    wn.add_valve('PRV', 'J4', 'J5', 0.3, 'PRV', 1.0, 30.0)
    wn.add_valve('PSV', 'J3', 'J4', 0.25, 'PSV', 2.0, 40.0, initial_status='OPEN')
    wn.add_valve('FCV', 'J4', 'J6', 0.2, 'FCV', 0.5, 0.01)
    wn.add_valve('TCV', 'J5', 'J6', 0.15, 'TCV', 1.5, 25.0, initial_status='CLOSED')
    wn.add_valve('PBV', 'J3', 'J5', 0.2, 'PBV', 0.0, 12.0)
    if o['gpv']:
        wn.add_curve('HL', 'HEADLOSS', [(0.0, 0.0), (0.05, 2.0), (0.1, 9.0)])
        wn.add_valve('GPV', 'J2', 'J6', 0.2, 'GPV', 0.0, 'HL')
    if o['vertices']:
        wn.get_link('TCV').vertices = [(92.0, 20.0)]
    wn.get_link('PRV').tag = 'valveTag'
    if o['quality']:
        wn.add_source('SRC1', 'J2', 'CONCEN', 1.2, 'PAT2')
        wn.add_source('SRC2', 'R1', 'MASS', 50.0, None)
    if o['leaks']:
        j2._leak, j2._leak_area, j2._leak_discharge_coeff = True, 0.002, 0.7
        t1 = wn.get_node('T1')
        t1._leak, t1._leak_area, t1._leak_discharge_coeff = True, 0.001, 0.6
    syms = {}
    if o['sym']:
        _symbolise(V, wn, syms, o)
    if o['controls']:
        _controls(V, wn, syms, o)
    return wn, syms


def _set(V, syms, obj, attr, name, lo, hi, kind='real'):
    v = V.real(name, lo, hi) if kind == 'real' else V.int(name, lo, hi)
    if isinstance(obj, dict):
        obj[attr] = v
    else:
        object.__setattr__(obj, attr, v) if not hasattr(type(obj), '__slots__') else setattr(obj, attr, v)
    syms[name] = v
    return v


def _symbolise(V, wn, syms, o):
    for jn, j in wn.junctions():
        _set(V, syms, j, '_elevation', 'elev_' + jn, -100, 3000)
        for k, ts in enumerate(j.demand_timeseries_list):
            _set(V, syms, ts, '_base', 'dem_%s_%d' % (jn, k), 0, 10)
        j._coordinates = (V.real('x_' + jn, -1e5, 1e5), V.real('y_' + jn, -1e5, 1e5))
        syms['x_' + jn], syms['y_' + jn] = j._coordinates
    j1 = wn.get_node('J1')
    _set(V, syms, j1, '_emitter_coefficient', 'emit_J1', 1e-6, 1)
    if o['quality']:
        _set(V, syms, j1, '_initial_quality', 'q0_J1', 0, 100)
    for tn, tk in wn.tanks():
        _set(V, syms, tk, '_elevation', 'elev_' + tn, -100, 3000)
        _set(V, syms, tk, '_min_level', 'min_' + tn, 0, 4)
        _set(V, syms, tk, '_max_level', 'max_' + tn, 7, 50)
        _set(V, syms, tk, '_init_level', 'init_' + tn, 5, 6)
        _set(V, syms, tk, '_diameter', 'diam_' + tn, 1, 100)
        tk._head = tk._init_level + tk._elevation
        tk._prev_head = tk._head
    _set(V, syms, wn.get_node('T1'), '_min_vol', 'minvol_T1', 0, 100)
    if o['quality']:
        _set(V, syms, wn.get_node('T1'), '_bulk_coeff', 'bulk_T1', -1e-3, 0)
        from wntr.epanet.util import MixType as _Mix
        if wn.get_node('T2').mixing_model is not _Mix.TwoComp:
            wn.get_node('T2').mixing_fraction = None      # the compartment fraction belongs to the 2COMP model only (the INP format has no place for it otherwise)
        elif 'T2' not in (o.get('mixfrac') or {}):
            _set(V, syms, wn.get_node('T2'), '_mixing_fraction', 'mixfrac_T2', 0.05, 0.95)
    for rn, r in wn.reservoirs():
        _set(V, syms, r.head_timeseries, '_base', 'head_' + rn, 0, 3000)
    for pn, p in wn.pipes():
        _set(V, syms, p, '_length', 'len_' + pn, 0.1, 1e5)
        _set(V, syms, p, '_diameter', 'diam_' + pn, 0.01, 5)
        _set(V, syms, p, '_roughness', 'rough_' + pn, 10, 200)
        _set(V, syms, p, '_minor_loss', 'minor_' + pn, 0, 100)
    if o['quality']:
        _set(V, syms, wn.get_link('P2'), '_bulk_coeff', 'bulk_P2', -1e-3, 0)
        _set(V, syms, wn.get_link('P3'), '_wall_coeff', 'wall_P3', -1e-3, 0)
    if o['vertices']:
        p2 = wn.get_link('P2')
        p2._vertices = [(V.real('vx0_P2', -1e5, 1e5), V.real('vy0_P2', -1e5, 1e5)), (V.real('vx1_P2', -1e5, 1e5), V.real('vy1_P2', -1e5, 1e5))]
        for k, (a, b) in enumerate(p2._vertices):
            syms['vx%d_P2' % k], syms['vy%d_P2' % k] = a, b
    _set(V, syms, wn.get_link('PU2'), '_base_power', 'power_PU2', 10, 1e6)
    _set(V, syms, wn.get_link('PU1')._speed_timeseries, '_base', 'speed_PU1', 1.1, 2)
    _set(V, syms, wn.get_link('PU1'), '_energy_price', 'eprice_PU1', 0, 1) if hasattr(wn.get_link('PU1'), '_energy_price') else None
    for vn, v in wn.valves():
        if vn == 'GPV':
            continue
        v.diameter = V.real('diam_' + vn, 0.01, 5)
        v.minor_loss = V.real('minor_' + vn, 0, 100)
        s = V.real('set_' + vn, 0.001, 200)
        v._initial_setting = s
        v._setting = s
        syms['diam_' + vn], syms['minor_' + vn], syms['set_' + vn] = v.diameter, v.minor_loss, s
    for pn in ('PAT1', 'PAT2', 'SPD', 'PRC'):
        pat = wn.get_pattern(pn)
        n = len(pat._multipliers)
        arr = np.empty(n, dtype=object)
        for k in range(n):
            arr[k] = V.real('mult_%s_%d' % (pn, k), 0, 10)
            syms['mult_%s_%d' % (pn, k)] = arr[k]
        pat._multipliers = arr
    for cn in ('HC1', 'VOL', 'EFF'):
        c = wn.get_curve(cn)
        pts = []
        for k, (x, y) in enumerate(c._points):
            px = V.real('cx_%s_%d' % (cn, k), 0.001 * (k + 1), 0.05 * (k + 1)) if cn != 'VOL' else V.real('cx_%s_%d' % (cn, k), *[(-1.0, -0.5), (3.0, 5.0), (55.0, 60.0)][k])
            py = V.real('cy_%s_%d' % (cn, k), 1 + k * 300, 300 + k * 300) if cn == 'VOL' else V.real('cy_%s_%d' % (cn, k), 1, 99)
            syms['cx_%s_%d' % (cn, k)], syms['cy_%s_%d' % (cn, k)] = px, py
            pts.append((px, py))
        c._points = pts
    if o['quality']:
        for sn, s in wn.sources():
            _set(V, syms, s.strength_timeseries, '_base', 'str_' + sn, 0, 1000)
    hopt = wn.options.hydraulic.__dict__
    for nm, lo, hi in (('demand_multiplier', 0.1, 10), ('specific_gravity', 0.5, 2), ('viscosity', 0.1, 10), ('emitter_exponent', 0.1, 2), ('accuracy', 1e-6, 0.1),
                       ('minimum_pressure', 0, 5), ('required_pressure', 10, 100), ('pressure_exponent', 0.1, 1), ('headerror', 0.001, 1), ('flowchange', 0.001, 1), ('damplimit', 0.001, 1)):
        hopt[nm] = V.real('opt_' + nm, lo, hi)
        syms['opt_' + nm] = hopt[nm]
    for k_, v_ in (o.get('hyd_after') or {}).items():       # concrete special values (0 = "not written") override the symbolic ones
        hopt[k_] = v_
    if o.get('speed') is not None:
        wn.get_link('PU1')._speed_timeseries._base = o['speed']
    eopt = wn.options.energy.__dict__
    for nm, lo, hi in (('global_price', 0, 1), ('global_efficiency', 1, 100), ('demand_charge', 0, 100)):
        eopt[nm] = V.real('opt_' + nm, lo, hi)
        syms['opt_' + nm] = eopt[nm]
    if o['quality']:
        ropt = wn.options.reaction.__dict__
        for nm, lo, hi in (('bulk_coeff', -1e-3, 0), ('wall_coeff', -1e-3, 0), ('limiting_potential', 0, 10), ('roughness_correl', 0, 10)):
            ropt[nm] = V.real('opt_' + nm, lo, hi)
            syms['opt_' + nm] = ropt[nm]
        qopt = wn.options.quality.__dict__
        for nm, lo, hi in (('diffusivity', 0.1, 10), ('tolerance', 1e-4, 1)):
            qopt[nm] = V.real('opt_' + nm, lo, hi)
            syms['opt_' + nm] = qopt[nm]
    if o['leaks']:
        j2 = wn.get_node('J2')
        _set(V, syms, j2, '_leak_area', 'leakA_J2', 1e-6, 1)
        _set(V, syms, j2, '_leak_discharge_coeff', 'leakCd_J2', 0.01, 1)


def _controls(V, wn, syms, o):
    sym = o['sym']

    def num(name, lo, hi, default, kind='real'):
        if kind == 'int' and o.get('concrete_times') is not None:
            return o['concrete_times'].get(name, default)
        if not sym:
            return default
        v = V.real(name, lo, hi) if kind == 'real' else V.int(name, lo, hi)
        syms[name] = v
        return v
    p3, tcv, pu3, prv, fcv = wn.get_link('P3'), wn.get_link('TCV'), wn.get_link('PU3'), wn.get_link('PRV'), wn.get_link('FCV')
    t1, j4 = wn.get_node('T1'), wn.get_node('J4')
    # simple controls
    c = SimTimeCondition(wn, Comparison.eq, 0)
    c._threshold = num('ct_time', 0, 200000, 5400, 'int')
    wn.add_control('ctl_time', Control(c, ControlAction(p3, 'status', LinkStatus.Open)))
    c = TimeOfDayCondition(wn, Comparison.eq, 0, repeat=True)
    c._threshold = (o.get('clock_thresholds') or (15 * 3600 + 1800, 6 * 3600))[0]     # clock times stay concrete: the parsers inspect the text of the hour field (AM/PM), which a token hides
    wn.add_control('ctl_clock', Control(c, ControlAction(pu3, 'status', LinkStatus.Open)))
    c = ValueCondition(t1, 'level', Comparison.lt, 0.0)
    c._threshold = num('ct_level', 0, 20, 2.5)
    wn.add_control('ctl_level', Control(c, ControlAction(p3, 'status', LinkStatus.Closed)))
    c = ValueCondition(j4, 'pressure', Comparison.gt, 0.0)
    c._threshold = num('ct_press', 0, 200, 45.0)
    wn.add_control('ctl_press', Control(c, ControlAction(tcv, 'setting', num('ct_tcvset', 0.1, 100, 12.0))))
    c = SimTimeCondition(wn, Comparison.eq, 0)
    c._threshold = num('ct_time2', 0, 200000, 7200, 'int')
    wn.add_control('ctl_prvset', Control(c, ControlAction(prv, 'setting', num('ct_prvset', 1, 100, 35.0))))
    if o['rules']:
        c1 = ValueCondition(t1, 'level', Comparison.ge, 0.0)
        c1._threshold = num('rt_level', 0, 20, 5.5)
        c2 = SimTimeCondition(wn, Comparison.ge, 0)
        c2._threshold = num('rt_time', 0, 200000, 3600, 'int')
        c3 = ValueCondition(j4, 'pressure', Comparison.lt, 0.0)
        c3._threshold = num('rt_press', 0, 200, 15.0)
        # EPANET rule text has no parentheses: 'A AND B OR C' means A AND (B OR C); Or(And(A, B), C) is not expressible (see o['or_of_and'])
        cond = OrCondition(AndCondition(c1, c2), c3) if o.get('or_of_and') else AndCondition(c1, OrCondition(c2, c3))
        then = [ControlAction(pu3, 'status', LinkStatus.Closed), ControlAction(fcv, 'setting', num('rt_fcvset', 0.001, 1, 0.02))]
        els = [ControlAction(pu3, 'status', LinkStatus.Open)]
        wn.add_control('rule1', Rule(cond, then, els, priority=ControlPriority(4), name='rule1'))
        if o.get('more_controls', True):
            # a setting action for every valve kind and a pump speed, in THEN and in ELSE position, and as simple controls
            psv, pbv, pu1 = wn.get_link('PSV'), wn.get_link('PBV'), wn.get_link('PU1')
            c5 = ValueCondition(t1, 'level', Comparison.le, 0.0)
            c5._threshold = num('r3_level', 0, 20, 1.5)
            then3 = [ControlAction(prv, 'setting', num('r3_prvset', 1, 100, 33.0)), ControlAction(psv, 'setting', num('r3_psvset', 1, 100, 41.0)),
                     ControlAction(tcv, 'setting', num('r3_tcvset', 0.1, 100, 7.0)), ControlAction(pu1, 'base_speed', num('r3_speed', 0.2, 2, 0.8))]
            else3 = [ControlAction(pbv, 'setting', num('r3_pbvset', 1, 100, 9.0)), ControlAction(fcv, 'setting', num('r3_fcvset', 0.001, 1, 0.015)),
                     ControlAction(prv, 'setting', num('r3_prvset2', 1, 100, 28.0)), ControlAction(pu1, 'base_speed', num('r3_speed2', 0.2, 2, 1.2))]
            wn.add_control('rule3', Rule(c5, then3, else3, priority=ControlPriority(1), name='rule3'))
            for k_, (lnk, lo, hi, dflt) in enumerate(((fcv, 0.001, 1, 0.03), (psv, 1, 100, 38.0), (pbv, 1, 100, 11.0))):
                cc = SimTimeCondition(wn, Comparison.eq, 0)
                cc._threshold = num('ct_time%d' % (k_ + 3), 0, 36000, 3000 + 1000 * k_, 'int')
                wn.add_control('ctl_set%d' % k_, Control(cc, ControlAction(lnk, 'setting', num('ct_set%d' % k_, lo, hi, dflt))))
            cc = ValueCondition(t1, 'level', Comparison.gt, 0.0)
            cc._threshold = num('ct_level2', 0, 20, 4.5)
            wn.add_control('ctl_speed', Control(cc, ControlAction(pu1, 'base_speed', num('ct_speed', 0.2, 2, 0.9))))
        c4 = TimeOfDayCondition(wn, Comparison.ge, 0, repeat=True)
        c4._threshold = (o.get('clock_thresholds') or (15 * 3600 + 1800, 6 * 3600))[1]
        if o.get('clock_once'):
            # a single timed trigger (documented constructor arguments repeat=False, first_day)
            c4._repeat, c4._first_day = False, int(o['clock_once'])
        wn.add_control('rule2', Rule(c4, [ControlAction(tcv, 'status', LinkStatus.Open)], None, priority=ControlPriority(2), name='rule2'))

"""Template networks and helpers for the model-level checks (C01, C02, C08, C09).

Every template is small (<= 6 nodes, <= 8 links) and chosen for an element combination the shipped INP files do
not contain: parallel links with opposite orientation, links ending in / starting at a tank, a pump into a tank,
a check-valve pipe out of a tank, every valve type, a dead-end branch, two sources.
"""
import z3

import wntr
from wntr.network.base import LinkStatus
from wntr.sim import hydraulics

from . import symx, amlsmt
from .symx import Sym, real


def _base(mode='DD'):
    wn = wntr.network.WaterNetworkModel()
    wn.options.hydraulic.demand_model = mode
    wn.options.hydraulic.required_pressure = 20.0
    wn.options.hydraulic.minimum_pressure = 0.0
    return wn


def T1(mode='DD'):
    wn = _base(mode)
    wn.add_reservoir('R1', base_head=50.0)
    wn.add_junction('J1', base_demand=0.01, elevation=5.0)
    wn.add_pipe('P1', 'R1', 'J1', length=100.0, diameter=0.3, roughness=100.0, minor_loss=0.0)
    return wn


def T2(mode='DD'):
    """two reservoirs + loop of three junctions; one pipe oriented against the loop"""
    wn = _base(mode)
    wn.add_reservoir('R1', base_head=60.0)
    wn.add_reservoir('R2', base_head=55.0)
    for n, e in (('J1', 5.0), ('J2', 7.0), ('J3', 2.0)):
        wn.add_junction(n, base_demand=0.01, elevation=e)
    wn.add_pipe('P1', 'R1', 'J1', length=100.0, diameter=0.3, roughness=100.0, minor_loss=2.0)
    wn.add_pipe('P2', 'J1', 'J2', length=150.0, diameter=0.25, roughness=110.0)
    wn.add_pipe('P3', 'J3', 'J2', length=120.0, diameter=0.2, roughness=120.0)     # against the loop direction
    wn.add_pipe('P4', 'J3', 'J1', length=130.0, diameter=0.2, roughness=90.0, minor_loss=1.5)
    wn.add_pipe('P5', 'J3', 'R2', length=80.0, diameter=0.3, roughness=100.0)       # pipe ENDING in a reservoir
    return wn


def T3(mode='DD'):
    """two parallel pipes between the same node pair, opposite orientation, plus a third parallel link (valve)"""
    wn = _base(mode)
    wn.add_reservoir('R1', base_head=60.0)
    wn.add_junction('J1', base_demand=0.01, elevation=5.0)
    wn.add_junction('J2', base_demand=0.02, elevation=3.0)
    wn.add_pipe('P1', 'R1', 'J1', length=100.0, diameter=0.3, roughness=100.0)
    wn.add_pipe('PA', 'J1', 'J2', length=100.0, diameter=0.2, roughness=100.0)
    wn.add_pipe('PB', 'J2', 'J1', length=140.0, diameter=0.15, roughness=120.0, minor_loss=3.0)
    wn.add_valve('VT', 'J1', 'J2', 0.2, 'TCV', 1.0, 50.0)
    return wn


def T4(mode='DD'):
    """tank with three links: pipe into it, check-valve pipe out of it, head pump into it; second demand category"""
    wn = _base(mode)
    wn.add_reservoir('R1', base_head=20.0)
    wn.add_tank('T1', elevation=30.0, init_level=3.0, min_level=1.0, max_level=6.0, diameter=10.0)
    wn.add_junction('J1', base_demand=0.01, elevation=5.0, demand_category='a')
    wn.get_node('J1').add_demand(0.005, None, 'b')
    wn.add_junction('J2', base_demand=0.02, elevation=3.0)
    wn.add_pipe('P1', 'J1', 'T1', length=100.0, diameter=0.3, roughness=100.0)                      # ends in the tank
    wn.add_pipe('P2', 'T1', 'J2', length=100.0, diameter=0.3, roughness=100.0, check_valve=True)    # starts at the tank, CV
    wn.add_curve('C1', 'HEAD', [(0.05, 30.0)])
    wn.add_pump('PU1', 'R1', 'J1', 'HEAD', 'C1')
    wn.add_curve('C3', 'HEAD', [(0.0, 40.0), (0.05, 30.0), (0.1, 10.0)])
    wn.add_pump('PU2', 'J2', 'T1', 'HEAD', 'C3')                                                     # pump ending in the tank
    wn.add_pipe('P3', 'J1', 'J2', length=200.0, diameter=0.2, roughness=100.0)
    return wn


def T5(mode='DD'):
    """power pump ending in a tank, TCVs starting at / ending in the tank (parallel), pipe reversed into a reservoir"""
    wn = _base(mode)
    wn.add_reservoir('R1', base_head=20.0)
    wn.add_tank('T1', elevation=30.0, init_level=3.0, min_level=1.0, max_level=6.0, diameter=10.0)
    wn.add_junction('J1', base_demand=0.01, elevation=5.0)
    wn.add_junction('J2', base_demand=0.02, elevation=3.0)
    wn.add_pump('PP', 'J1', 'T1', 'POWER', 3000.0)
    wn.add_valve('VA', 'T1', 'J2', 0.3, 'TCV', 0.5, 20.0)          # valve starting at the tank
    wn.add_valve('VB', 'J2', 'T1', 0.25, 'TCV', 0.5, 40.0)         # parallel valve ending in the tank
    wn.add_pipe('P1', 'J1', 'R1', length=100.0, diameter=0.3, roughness=100.0)   # reversed into the reservoir
    wn.add_pipe('P2', 'J1', 'J2', length=100.0, diameter=0.3, roughness=100.0)
    return wn


def T6(mode='DD'):
    """one of each supported valve type between two junction rows"""
    wn = _base(mode)
    wn.add_reservoir('R1', base_head=80.0)
    wn.add_junction('JA', base_demand=0.0, elevation=5.0)
    wn.add_junction('JB', base_demand=0.04, elevation=3.0)
    wn.add_pipe('P1', 'R1', 'JA', length=100.0, diameter=0.4, roughness=100.0)
    wn.add_valve('PRV', 'JA', 'JB', 0.3, 'PRV', 1.0, 30.0)
    wn.add_valve('PSV', 'JA', 'JB', 0.25, 'PSV', 2.0, 40.0)
    wn.add_valve('FCV', 'JA', 'JB', 0.2, 'FCV', 0.5, 0.01)
    wn.add_valve('TCV', 'JA', 'JB', 0.15, 'TCV', 1.5, 25.0)
    return wn


def T7(mode='DD'):
    """dead-end branch behind a closable pipe, two sources with a bridge"""
    wn = _base(mode)
    wn.add_reservoir('R1', base_head=60.0)
    wn.add_tank('T1', elevation=40.0, init_level=3.0, min_level=0.0, max_level=6.0, diameter=8.0)
    for n, e in (('J1', 5.0), ('J2', 7.0), ('J3', 2.0), ('J4', 1.0)):
        wn.add_junction(n, base_demand=0.01, elevation=e)
    wn.add_pipe('P1', 'R1', 'J1', length=100.0, diameter=0.3, roughness=100.0)
    wn.add_pipe('P2', 'J1', 'J2', length=100.0, diameter=0.3, roughness=100.0)     # bridge
    wn.add_pipe('P3', 'J2', 'T1', length=100.0, diameter=0.3, roughness=100.0)
    wn.add_pipe('P4', 'J2', 'J3', length=100.0, diameter=0.2, roughness=100.0)     # branch
    wn.add_pipe('P5', 'J3', 'J4', length=100.0, diameter=0.2, roughness=100.0)     # dead end
    return wn


TEMPLATES = {'T1': T1, 'T2': T2, 'T3': T3, 'T4': T4, 'T5': T5, 'T6': T6, 'T7': T7}
DESCRIPTIONS = {k: (f.__doc__ or 'reservoir-pipe-junction').strip() for k, f in TEMPLATES.items()}


def symbolic_vars(c, m, params=('expected_demand',)):
    """give every Var of the model (and the listed Param dicts) a z3 Real; returns {(kind, name): Sym}"""
    out = {}
    for kind in ('flow', 'head', 'demand', 'leak_rate'):
        if hasattr(m, kind):
            for name in getattr(m, kind):
                s = c.real('%s_%s' % (kind, name))
                getattr(m, kind)[name].value = s
                out[(kind, name)] = s
    for kind in params:
        if hasattr(m, kind):
            for name in getattr(m, kind):
                s = c.real('%s_%s' % (kind, name))
                getattr(m, kind)[name].value = s
                out[(kind, name)] = s
    return out


def witness_vars(model, vars_):
    return {'%s_%s' % k: symx.model_value(model, v) for k, v in vars_.items()}


def assign_concrete(m, values):
    """replay side: put floats from a counterexample into the real (C++) model"""
    for kind in ('flow', 'head', 'demand', 'leak_rate', 'expected_demand', 'source_head'):
        if hasattr(m, kind):
            for name in getattr(m, kind):
                k = '%s_%s' % (kind, name)
                if k in values:
                    getattr(m, kind)[name].value = float(values[k])


def head_term(m, wn, node_name):
    """the model quantity that stands for a node's head (Var for junctions, source_head Param otherwise)"""
    node = wn.get_node(node_name)
    if isinstance(node, wntr.network.Junction):
        return m.head[node_name].value
    return m.source_head[node_name].value


def piecewise(paths, value_of=lambda p: p.value):
    return amlsmt.fold_paths(paths, value_of)

"""C16  Runs terminate with well-formed results and never hide a failed step.

The REAL run_sim (vf.ctrlplane) under a SYMBOLIC FAULT SCHEDULE: the index of the solve that fails is a symbolic Int
(-1 = never), a backup solver is present or not and succeeds or not, convergence_error is on or off (all forked), the
report timestep is 'ALL', H or 2H, and a time control with a symbolic instant inserts partial steps.  A second family makes
the post-solve controls flip a pipe on every trial (trial limit reached).  On EVERY feasible path:
   terminates      run_sim returns or raises RuntimeError; nothing else, and only with convergence_error=True
   no-hiding       a failed solve (primary and, if present, backup) => RuntimeError (convergence_error) or error_code set +
                   warning, and the run stops there; no failure => error_code is None and the run reaches the duration
   well-formed     recorded times strictly increase, lie on the report grid (every solved step for 'ALL'); every element list
                   has one entry per recorded time; the real get_results builds tables with exactly one column per element
                   sharing that index (checked whenever the times are concrete)
   prefix          the records before the failure are term-for-term those of the run without the failure
NewtonSolver's own loops (maxiter, bt_maxiter, time_limit) and 'only finite numbers' are outside: the numeric kernel is stubbed.
"""
import warnings
import z3
import scipy.optimize

import wntr
import wntr.sim.core as core
from wntr.sim.solvers import SolverStatus, NewtonSolver
from wntr.sim.results import ResultsStatus
from wntr.network.base import LinkStatus
from wntr.network.controls import Control, ControlAction, SimTimeCondition, ValueCondition, Comparison

from .. import symx, ctrlplane
from ..symx import Sym, real
from ..harness import SymVars, ConcVars, compare
from ..report import guarded, run_parallel


def build(V, cfg):
    wn = wntr.network.WaterNetworkModel()
    wn.add_reservoir('R', base_head=50.0)
    wn.add_tank('T', elevation=10.0, init_level=5.0, min_level=0.0, max_level=40.0, diameter=20.0)
    wn.add_junction('J1', base_demand=0.01, elevation=0.0)
    wn.add_junction('J2', base_demand=0.01, elevation=0.0)
    wn.add_pipe('P1', 'R', 'J1')
    wn.add_pipe('P2', 'J1', 'J2')
    wn.add_pipe('P3', 'J2', 'T')
    wn.add_curve('PC', 'HEAD', [(0.05, 30.0)])
    wn.add_pump('PU', 'R', 'J2', 'HEAD', 'PC')
    wn.add_valve('VT', 'J1', 'J2', 0.3, 'TCV', 0.0, 10.0)
    t = wn.options.time
    t.hydraulic_timestep = t.rule_timestep = cfg['H']
    t.report_timestep = cfg['report']
    t.duration = cfg['dur']
    wn.options.hydraulic.trials = cfg.get('trials', 3)
    if cfg.get('time_control'):
        cnd = SimTimeCondition(wn, Comparison.eq, 0)
        cnd._threshold = V.int('t_ctl', 0, cfg['dur'])
        wn.add_control('tc', Control(cnd, ControlAction(wn.get_link('P2'), 'status', LinkStatus.Closed)))
    if cfg.get('storm'):
        j1 = wn.get_node('J1')
        wn.add_control('hi', Control(ValueCondition(j1, 'pressure', Comparison.gt, 50.0), ControlAction(wn.get_link('P2'), 'status', LinkStatus.Closed)))
        wn.add_control('lo', Control(ValueCondition(j1, 'pressure', Comparison.lt, 50.0), ControlAction(wn.get_link('P2'), 'status', LinkStatus.Open)))
    return wn


def make_policy(cfg):
    def head_of(plane, wn, nn):
        if cfg.get('storm') and nn == 'J1':
            storm_from = cfg.get('storm_from', 0)
            if plane.primary >= storm_from + 1:
                return 80.0 if wn.get_link('P2').status != LinkStatus.Closed else 20.0
            return 50.0
        return 40.0
    return ctrlplane.table_policy(lambda pl, wn, ln: 0.003, head_of)


def run_one(plane, wn, fault, cfg, backup, conv):
    plane.primary = 0
    plane.fault = fault
    out = {'raised': None, 'warned': [], 'res': None}
    with warnings.catch_warnings(record=True) as w:
        warnings.simplefilter('always')
        try:
            sim = wntr.sim.WNTRSimulator(wn)
            plane.wn, plane.calls, plane.solves = wn, 0, []
            out['res'] = sim.run_sim(backup_solver=(scipy.optimize.fsolve if backup else None), convergence_error=conv)
        except RuntimeError as ex:
            out['raised'] = ex
        out['warned'] = [str(x.message) for x in w if 'converge' in str(x.message) or 'trials' in str(x.message)]
    return out


CFGS_QUICK = [
    dict(name='fault-all', H=3600, dur=2 * 3600, report='ALL', time_control=True),
    dict(name='fault-grid', H=1800, dur=2 * 3600, report=3600, time_control=True),
    dict(name='fault-concrete', H=3600, dur=3 * 3600, report=7200, time_control=False),
    dict(name='fault-report-nonmultiple', H=3600, dur=4 * 3600, report=9000, time_control=False),   # 9000 is not a multiple of 3600: documented reduction to 7200
    dict(name='fault-report-finer-than-H', H=3600, dur=3600, report=1200, time_control=True),     # the run works on the report step (documented reduction of the hydraulic step)
    dict(name='storm', H=3600, dur=2 * 3600, report='ALL', storm=True, storm_from=1, trials=2),
    dict(name='storm-first-step', H=3600, dur=3600, report=3600, storm=True, storm_from=0, trials=3),
]


def check_cfg(rep, cfg):
    tag = cfg['name']
    plane = ctrlplane.Plane(make_policy(cfg))
    with ctrlplane.installed(plane):
        def harness(c):
            V = SymVars(c)
            conv = V.choice('convergence_error', [False, True])
            backup = V.choice('backup', [False, True]) if not cfg.get('storm') else False
            backup_ok = V.choice('backup_ok', [False, True]) if backup else False
            nmax = cfg['dur'] // cfg['H'] + 3
            fail_at = V.int('fail_at', -1, nmax) if not cfg.get('storm') else -1
            failed = {'k': None}

            def fault(pl, k, solver):
                if solver is not NewtonSolver:       # the backup solver
                    return SolverStatus.converged if backup_ok else SolverStatus.error
                idx = pl.primary
                pl.primary += 1
                if bool(fail_at == idx):
                    failed['k'] = idx
                    failed['time'] = pl.wn.sim_time
                    return SolverStatus.error
                return SolverStatus.converged
            # reference: the same model without the fault
            ref = run_one(plane, build(V, cfg), (lambda pl, k, s: (setattr(pl, 'primary', pl.primary + 1) or SolverStatus.converged)) , cfg, False, False)
            failed['k'] = None
            out = run_one(plane, build(V, cfg), fault, cfg, backup, conv)
            return V, conv, backup, backup_ok, failed, ref, out
        n = 0
        bad = set()
        for path in symx.explore(harness, max_paths=20000, timeout_s=400 if rep.tier == 'quick' else 2400, catch=(Exception,)):
            n += 1
            cons = path.constraints()
            V = None
            if path.exc is not None:
                if 'terminates' not in bad:
                    bad.add('terminates')
                    m_ = symx.satisfiable(cons)
                    rep.counterexample('c16/%s/terminates' % tag, dict(_inputs(m_.model, path), cfg=cfg, why='run_sim raised %s: %s' % (type(path.exc).__name__, path.exc)), 'fault')
                continue
            V, conv, backup, backup_ok, failed, ref, out = path.value
            wit = lambda mdl, V=V: V.witness(mdl, cfg=cfg)
            problems = []
            step_failed = (failed['k'] is not None and not (backup and backup_ok))
            storm = bool(cfg.get('storm'))
            res = out['res']
            if ref['raised'] is not None and not storm:
                problems.append('the run without any failed step raised: %s' % ref['raised'])
                if 'structure' not in bad:
                    bad.add('structure')
                    m_ = symx.satisfiable(cons)
                    rep.counterexample('c16/%s/structure' % tag, dict(_inputs(m_.model, path), cfg=cfg, why=problems[0]), 'fault')
                continue
            if step_failed or storm:
                if conv:
                    if out['raised'] is None:
                        problems.append('a failed step with convergence_error=True did not raise')
                else:
                    if out['raised'] is not None:
                        problems.append('RuntimeError although convergence_error=False: %s' % out['raised'])
                    elif res.error_code != ResultsStatus.error:
                        problems.append('failed step but error_code=%r' % (res.error_code,))
                    elif not out['warned']:
                        problems.append('failed step but no warning')
            else:
                if out['raised'] is not None:
                    problems.append('RuntimeError without a failed step: %s' % out['raised'])
                elif res.error_code is not None:
                    problems.append('error_code=%r although no step failed' % (res.error_code,))
            claims = []
            if res is not None:
                T = [real(t) for t in res.time]
                grid = _grid(cfg)
                if T:
                    claims.append(('times', z3.And(T[0] == 0, *[T[k] < T[k + 1] for k in range(len(T) - 1)])))
                    if grid:
                        claims.append(('on-report-grid', z3.And(*[symx.as_int_term(t) % grid == 0 if symx.as_int_term(t) is not None else t == t for t in T])))
                for tbl, d in list(res.node.items()) + list(res.link.items()):
                    for name, lst in d.items():
                        if len(lst) != len(res.time):
                            problems.append('%s[%s] has %d entries for %d recorded times' % (tbl, name, len(lst), len(res.time)))
                if set(res.node['head']) != set(ref['res'].node['head']) or len(res.node['head']) != 4 or len(res.link['flowrate']) != 5:
                    problems.append('result tables do not have one entry per element')
                if getattr(res, 'frames', False):
                    for tbl, df in list(res.node_frames.items()) + list(res.link_frames.items()):
                        if list(df.index) != list(res.time) or len(set(df.columns)) != len(df.columns):
                            problems.append('table %s: index/columns malformed' % tbl)
                    if sorted(res.node_frames['head'].columns) != sorted(['J1', 'J2', 'T', 'R']) or sorted(res.link_frames['flowrate'].columns) != sorted(['P1', 'P2', 'P3', 'PU', 'VT']):
                        problems.append('tables do not have exactly one column per element')
                elif getattr(res, 'frames_error', None) is not None:
                    problems.append('get_results failed: %r' % (res.frames_error,))
                if not (step_failed or storm):
                    # complete run: the last record is the last report time <= duration
                    last = cfg['dur'] if grid is None else (cfg['dur'] // grid) * grid
                    claims.append(('reaches-duration', T[-1] == last if T else z3.BoolVal(False)))
                # prefix equality with the reference run
                rres = ref['res']
                npre = len(res.time)
                if len(rres.time) < npre:
                    problems.append('faulty run has more records (%d) than the fault-free run (%d)' % (npre, len(rres.time)))
                else:
                    a = {'time': list(res.time), 'node': {k: {e: v for e, v in d.items()} for k, d in res.node.items()}, 'link': {k: dict(d) for k, d in res.link.items()}}
                    b = {'time': list(rres.time)[:npre], 'node': {k: {e: v[:npre] for e, v in d.items()} for k, d in rres.node.items()}, 'link': {k: {e: v[:npre] for e, v in d.items()} for k, d in rres.link.items()}}
                    if storm:
                        pass   # the storm changes the state from its first step on; prefix is checked below by count only
                    else:
                        mism, cl = compare(a, b)
                        if mism:
                            problems.append('records before the failure differ from the fault-free run: ' + '; '.join(mism[:2]))
                        if cl:
                            claims.append(('prefix', z3.And(*[x for _, x in cl])))
                if storm and not conv:
                    want = cfg.get('storm_from', 0)
                    # steps solved before the storm starts are reported
                    if len(res.time) < (want if isinstance(cfg['report'], str) else 0):
                        problems.append('steps before the failing one are missing: %d records' % len(res.time))
            if problems and 'structure' not in bad:
                bad.add('structure')
                m_ = symx.satisfiable(cons)
                rep.counterexample('c16/%s/structure' % tag, dict(V.witness(m_.model, cfg=cfg), why='; '.join(problems[:3])), 'fault')
            elif not problems:
                rep.discharged('c16/%s/structure/path%d' % (tag, n), sample={'choices': dict(path.choices), 'failed_solve': failed['k'], 'records': len(res.time) if res is not None else None,
                                                                                 'raised': str(out['raised']) if out['raised'] else None})
            for name, claim in claims:
                if name in bad:
                    continue
                if not rep.prove('c16/%s/%s/path%d' % (tag, name, n), cons, claim, wit, 'fault', sample=name):
                    bad.add(name)
        rep.extra['paths_' + tag] = n
        if not bad:
            rep.reach('c16/' + tag, cons)


def _grid(cfg):
    """the report grid the simulator documents: 'ALL' -> None; a report step that is not a multiple of the hydraulic step is reduced to one"""
    if isinstance(cfg['report'], str):
        return None
    r, h = cfg['report'], cfg['H']
    if r < h:
        return r
    return r - r % h


def _inputs(model, path):
    out = {}
    for d in model.decls():
        if d.arity() == 0 and str(d) in ('fail_at', 't_ctl'):
            out[str(d)] = symx.model_value(model, d())
    for nm, v in path.choices:
        out['choice:' + nm] = v
    out.setdefault('fail_at', -1)
    out.setdefault('t_ctl', 0)
    return out


def replay_fault(i):
    """the real run_sim with the real model and result code; the fault is injected by wrapping the real _solver_helper so
    that the k-th primary solve reports failure after having solved (its solution is discarded exactly as a real failure's is)"""
    cfg = i['cfg']
    V = ConcVars(i)
    conv = bool(i.get('choice:convergence_error', False))
    backup = bool(i.get('choice:backup', False))
    backup_ok = bool(i.get('choice:backup_ok', False))
    fail_at = int(i.get('fail_at', -1))
    real_helper = core._solver_helper
    state = {'n': 0}

    def helper(model, solver, opts):
        if solver is not NewtonSolver:
            if backup_ok:
                return real_helper(model, solver, opts)       # the real backup solver (scipy fsolve) on the real model
            return SolverStatus.error, 'injected backup failure', 0
        idx = state['n']
        state['n'] += 1
        if idx == fail_at:
            return SolverStatus.error, 'injected failure', 0
        return real_helper(model, solver, opts)

    def go(inject):
        wn = build(V, dict(cfg, storm=False))
        state['n'] = 0
        core._solver_helper = helper if inject else real_helper
        try:
            with warnings.catch_warnings(record=True) as w:
                warnings.simplefilter('always')
                try:
                    r = wntr.sim.WNTRSimulator(wn).run_sim(backup_solver=(scipy.optimize.fsolve if backup and inject else None), convergence_error=conv if inject else False)
                    return r, None, [str(x.message) for x in w]
                except Exception as ex:
                    return None, ex, []
        finally:
            core._solver_helper = real_helper
    if cfg.get('storm'):
        return _storm_real(cfg, conv)
    ref, ref_exc, _ = go(False)
    if ref is None:
        return 'the run without any failed step raised %s: %s' % (type(ref_exc).__name__, ref_exc)
    res, exc, warned = go(True)
    if exc is not None and not isinstance(exc, RuntimeError):
        return 'run_sim raised %s: %s' % (type(exc).__name__, exc)
    hit = fail_at >= 0 and state['n'] > fail_at and not (backup and backup_ok)
    if hit:
        if conv and exc is None:
            return 'solve %d failed with convergence_error=True but no RuntimeError was raised' % fail_at
        if not conv:
            if exc is not None:
                return 'RuntimeError although convergence_error=False: %s' % exc
            if res.error_code != ResultsStatus.error:
                return 'solve %d failed but error_code=%r' % (fail_at, res.error_code)
            if not any('converge' in m for m in warned):
                return 'solve %d failed but no warning was issued' % fail_at
    else:
        if exc is not None:
            return 'RuntimeError without a failed step: %s' % exc
        if res.error_code is not None:
            return 'error_code=%r although no step failed' % (res.error_code,)
    if res is not None:
        idx = list(res.node['head'].index)
        if idx != sorted(set(idx)):
            return 'result index not strictly increasing: %r' % idx
        if _grid(cfg) and any(t % _grid(cfg) for t in idx):
            return 'result index off the report grid: %r' % idx
        for k, df in list(res.node.items()) + list(res.link.items()):
            if list(df.index) != idx:
                return 'table %s does not share the index' % k
        if sorted(res.node['head'].columns) != ['J1', 'J2', 'R', 'T'] or sorted(res.link['flowrate'].columns) != ['P1', 'P2', 'P3', 'PU', 'VT']:
            return 'tables do not have one column per element'
        n = len(idx)
        if list(ref.node['head'].index)[:n] != idx:
            return 'reported times before the failure %r differ from the fault-free run %r' % (idx, list(ref.node['head'].index)[:n])
        for k in ('head', 'demand'):
            if n and abs(ref.node[k].iloc[:n].values - res.node[k].values).max() > 1e-9:
                return 'node %s before the failure differs from the fault-free run' % k
        if not hit and (not idx or idx[-1] != (cfg['dur'] if _grid(cfg) is None else (cfg['dur'] // _grid(cfg)) * _grid(cfg))):
            return 'run without a failed step stops at %r, duration %d' % (idx[-1:] or None, cfg['dur'])
    return None


def _storm_real(cfg, conv):
    """a real network whose post-solve controls flip a pipe on every trial: closing the only feed isolates the junction (pressure 0),
    which re-opens it, which restores the pressure, which closes it ... until the trial limit"""
    wn = wntr.network.WaterNetworkModel()
    wn.add_reservoir('R', base_head=50.0)
    wn.add_junction('J1', base_demand=0.01, elevation=0.0)
    wn.add_junction('J2', base_demand=0.01, elevation=0.0)
    wn.add_pipe('P1', 'R', 'J1')
    wn.add_pipe('P2', 'J1', 'J2')
    t = wn.options.time
    t.hydraulic_timestep = t.rule_timestep = cfg['H']
    t.report_timestep = cfg['report']
    t.duration = cfg['dur']
    wn.options.hydraulic.trials = cfg.get('trials', 3)
    j2 = wn.get_node('J2')
    wn.add_control('hi', Control(ValueCondition(j2, 'pressure', Comparison.gt, 10.0), ControlAction(wn.get_link('P2'), 'status', LinkStatus.Closed)))
    wn.add_control('lo', Control(ValueCondition(j2, 'pressure', Comparison.lt, 10.0), ControlAction(wn.get_link('P2'), 'status', LinkStatus.Open)))
    with warnings.catch_warnings(record=True) as w:
        warnings.simplefilter('always')
        try:
            res = wntr.sim.WNTRSimulator(wn).run_sim(convergence_error=conv)
        except RuntimeError as ex:
            return None if conv else 'RuntimeError although convergence_error=False: %s' % ex
        warned = [str(x.message) for x in w if 'trials' in str(x.message) or 'converge' in str(x.message)]
    if conv:
        return 'the trial limit was exceeded with convergence_error=True but run_sim returned normally'
    if res.error_code != ResultsStatus.error:
        return 'the trial limit was exceeded but error_code=%r' % (res.error_code,)
    if not warned:
        return 'the trial limit was exceeded but no warning was issued'
    return None


# ------------------------------------------------------------------------------------------------
# the Newton solver's own control flow: every way a solve can end is reported as a status, never as an exception
import numpy as np
import scipy.sparse
import wntr.sim.solvers as SOLV


class _StubModel:
    """one variable, one row; every residual evaluation returns a fresh symbolic norm; the Jacobian is a real 1x1 sparse matrix
    (singular or not, by a forked choice) so that the real scipy call decides what a singular matrix does"""
    def __init__(self, V, singular_at):
        self.V, self.k, self.j, self.singular_at = V, 0, 0, singular_at
        self.loaded = []
        self.evals = []

    def get_x(self):
        return np.array([0.0])

    def evaluate_residuals(self, x=None):
        r = self.V.real('r%d' % self.k, 0, 10)
        self.k += 1
        self.evals.append((r, len(self.loaded)))
        out = np.empty(1, dtype=object)
        out[0] = r
        return out

    def evaluate_jacobian(self, x=None):
        v = 0.0 if self.j == self.singular_at else 2.0
        self.j += 1
        return scipy.sparse.csr_matrix(np.array([[v]]))

    def load_var_values_from_x(self, x):
        self.loaded.append(x)

    def set_structure(self):
        pass


class _Linalg:
    """scipy.sparse.linalg as the solver module sees it: the REAL routines run on the real matrix with a float right-hand side (so a
    singular matrix is reported the way scipy reports it, under the warnings filter wntr.sim.solvers installs); the direction
    returned to the symbolic run is a plain float vector"""
    def __getattr__(self, n):
        return getattr(scipy.sparse.linalg, n)

    @staticmethod
    def spsolve(J, r, **kw):
        return scipy.sparse.linalg.spsolve(J, np.ones(J.shape[0]), **kw)

    @staticmethod
    def splu(J, **kw):
        lu = scipy.sparse.linalg.splu(J, **kw)

        class _LU:
            def solve(self_, r, *a, **k):
                return lu.solve(np.ones(J.shape[0]), *a, **k)
        return _LU()


class _Sp:
    linalg = _Linalg()

    def __getattr__(self, n):
        return getattr(scipy.sparse, n)


class _Clock:
    """time.time(): arbitrary non-decreasing instants"""
    def __init__(self, V):
        self.V, self.k, self.last = V, 0, None

    def time(self):
        t = self.V.real('clock%d' % self.k, 0, 1000)
        self.k += 1
        if self.last is not None and self.V.symbolic:
            self.V.c.assume(real(t) >= real(self.last))
        self.last = t
        return t

    def __getattr__(self, n):
        import time as _t
        return getattr(_t, n)


def check_solver(rep):
    saved = (SOLV.sp, SOLV.time)
    undo = symx.install_shims(SOLV, ('np',))
    opts = {'MAXITER': 2, 'BT_MAXITER': 2, 'TIME_LIMIT': 100, 'TOL': 1e-6}
    try:
        def harness(c):
            V = SymVars(c)
            singular_at = V.choice('singular_at', [-1, 0, 1])
            bt = V.choice('backtracking', [True, False])
            m = _StubModel(V, singular_at)
            SOLV.sp, SOLV.time = _Sp(), _Clock(V)
            with warnings.catch_warnings():
                warnings.filterwarnings('error', 'Matrix is exactly singular', scipy.sparse.linalg.MatrixRankWarning)
                out = NewtonSolver(dict(opts, BACKTRACKING=bt)).solve(m)
            return V, m, out, singular_at
        n = 0
        bad = set()
        cons = []
        for path in symx.explore(harness, max_paths=4000, timeout_s=300, catch=(Exception, Warning)):
            n += 1
            cons = path.constraints()
            choices = dict(path.choices)
            if path.exc is not None:
                if 'raised' not in bad:
                    bad.add('raised')
                    rep.counterexample('solver/raised', dict(singular_at=choices.get('singular_at', -1), backtracking=choices.get('backtracking', True),
                                                             why='NewtonSolver.solve raised %s: %s' % (type(path.exc).__name__, path.exc)), 'solver')
                continue
            V, m, out, singular_at = path.value
            ok = isinstance(out, tuple) and len(out) == 3 and out[0] in (SolverStatus.converged, SolverStatus.error)
            if not ok:
                if 'shape' not in bad:
                    bad.add('shape')
                    rep.counterexample('solver/returns-status', dict(singular_at=singular_at, backtracking=choices.get('backtracking', True), why='solve returned %r' % (out,)), 'solver')
                continue
            wit = lambda mdl, V=V: V.witness(mdl, singular_at=singular_at, backtracking=choices.get('backtracking', True))
            status, msg, it = out
            if status == SolverStatus.converged:
                # converged is only said when the last residual norm that was looked at is below the tolerance, and the model holds the
                # point that residual belongs to (no load after it)
                r_last, loads_then = m.evals[-1]
                claim = z3.And(real(r_last) < symx.rv(opts['TOL']), z3.BoolVal(loads_then == len(m.loaded)))
                if 'converged' not in bad and not rep.prove('solver/converged-means-below-tolerance/path%d' % n, cons, claim, wit, 'solver',
                                                            sample='converged after %d residual evaluations' % len(m.evals)):
                    bad.add('converged')
            else:
                # an error status names its reason; with a singular matrix at iteration k the reason is the singular matrix
                known = ('Time limit exceeded', 'Jacobian is singular', 'Line search failed', 'Reached maximum number of iterations')
                if not any(msg.startswith(k_) for k_ in known):
                    if 'message' not in bad:
                        bad.add('message')
                        rep.counterexample('solver/error-message', dict(singular_at=singular_at, backtracking=choices.get('backtracking', True), why='error status with message %r' % msg), 'solver')
                else:
                    rep.discharged('solver/error-is-a-status/path%d' % n, sample={'message': msg, 'residual evaluations': len(m.evals), 'singular_at': singular_at})
        rep.extra['solver_paths'] = n
        if not bad and n:
            rep.reach('solver', cons)
    finally:
        SOLV.sp, SOLV.time = saved
        undo()


def check_helper(rep):
    """the real _solver_helper on every outcome a scipy solver can report: converged only for fsolve's ier == 1 (or a solver that
    returned without raising), and only then are the values loaded into the model"""
    real_fsolve, real_nk = scipy.optimize.fsolve, scipy.optimize.newton_krylov
    try:
        def harness(c):
            V = SymVars(c)
            kind = V.choice('solver', ['fsolve', 'newton_krylov'])
            m = _StubModel(V, -1)
            if kind == 'fsolve':
                ier = V.choice('ier', [1, 2, 3, 4, 5, 0])
                scipy.optimize.fsolve = lambda f, x0, **kw: (np.array([7.0]), {}, ier, 'message %d' % ier)
                out = core._solver_helper(m, scipy.optimize.fsolve, {'full_output': True})
                want = ier == 1
            else:
                fails = V.choice('raises', [False, True])

                def nk(f, x0, **kw):
                    if fails:
                        raise scipy.optimize.NoConvergence('stub')
                    return np.array([7.0])
                scipy.optimize.newton_krylov = nk
                core_solvers = core.scipy.optimize      # _solver_helper looks the solver up in this set by identity
                out = core._solver_helper(m, scipy.optimize.newton_krylov, {})
                want = not fails
            return kind, dict(c.choices), out, want, len(m.loaded)
        n = 0
        bad = False
        for path in symx.explore(harness, max_paths=100, timeout_s=120, catch=(Exception,)):
            n += 1
            ch = dict(path.choices)
            if path.exc is not None:
                if isinstance(path.exc, ValueError) and 'Solver not recognized' in str(path.exc):
                    rep.discharged('helper/path%d' % n, sample={'choices': ch, 'note': 'solver not in the recognised set on this scipy'})
                    continue
                rep.counterexample('helper/raised', dict(ch, why='_solver_helper raised %s: %s' % (type(path.exc).__name__, path.exc)), 'helper')
                bad = True
                continue
            kind, ch, out, want, loads = path.value
            ok = isinstance(out, tuple) and len(out) == 3 and (out[0] == SolverStatus.converged) == want and (loads > 0) == want
            if not ok:
                rep.counterexample('helper/status', dict(ch, why='%s outcome %r: _solver_helper returned %r and loaded the values %d time(s); a solve that gave up must be an error and must not be loaded' % (kind, ch, out, loads)), 'helper')
                bad = True
            else:
                rep.discharged('helper/path%d' % n, sample={'choices': ch, 'status': int(out[0]), 'loaded': loads})
        rep.extra['helper_paths'] = n
    finally:
        scipy.optimize.fsolve, scipy.optimize.newton_krylov = real_fsolve, real_nk


def replay_helper(i):
    """the real fsolve gives up on an inconsistent system: the real _solver_helper must say error"""
    import wntr.sim.aml as aml
    m = aml.Model()
    m.x, m.y = aml.Var(0.5), aml.Var(0.25)
    m.c1 = aml.Constraint(m.x + m.y - 1.0)
    m.c2 = aml.Constraint(2.0 * m.x + 2.0 * m.y - 3.0)
    with warnings.catch_warnings():
        warnings.simplefilter('ignore')
        try:
            out = core._solver_helper(m, scipy.optimize.fsolve, {'full_output': True})      # what run_sim passes for fsolve
        except BaseException as ex:
            return '_solver_helper raised %s: %s' % (type(ex).__name__, ex)
    if out[0] == SolverStatus.converged:
        return 'fsolve gave up on an inconsistent system (residual %.3g) but _solver_helper reported it as solved' % max(abs(v) for v in m.evaluate_residuals())
    return None


def replay_solver(i):
    """the real NewtonSolver on a real (compiled) aml model whose Jacobian is singular / regular, through the real _solver_helper"""
    import wntr.sim.aml as aml
    m = aml.Model()
    m.x, m.y = aml.Var(0.5), aml.Var(0.25)
    if int(i.get('singular_at', -1)) >= 0:
        m.c1 = aml.Constraint(m.x + m.y - 1.0)
        m.c2 = aml.Constraint(2.0 * m.x + 2.0 * m.y - 3.0)
    else:
        m.c1 = aml.Constraint(m.x + m.y - 1.0)
        m.c2 = aml.Constraint(m.x - m.y)
    try:
        out = core._solver_helper(m, NewtonSolver, {'MAXITER': 5, 'BACKTRACKING': bool(i.get('backtracking', True))})
    except BaseException as ex:
        return 'a solve that cannot succeed raised %s (%s) instead of returning an error status' % (type(ex).__name__, ex)
    if not (isinstance(out, tuple) and len(out) == 3 and out[0] in (SolverStatus.converged, SolverStatus.error)):
        return 'the solve returned %r' % (out,)
    if int(i.get('singular_at', -1)) >= 0 and out[0] == SolverStatus.converged:
        return 'an inconsistent singular system was reported as solved'
    return None


def run(rep, only=None):
    rep.explanation = ('The real run_sim with the numeric kernel replaced by a stub driven by a symbolic fault schedule (failing solve index symbolic, backup solver / convergence_error forked) '
                       'and a symbolic time-control instant; every feasible path is explored; z3 decides time ordering / report-grid / prefix-equality claims; raise-or-flag behaviour and table '
                       'shape are checked on every path.')
    rep.encode(core.WNTRSimulator.run_sim, core._solver_helper, core.WNTRSimulator._setup_sim_options, wntr.sim.hydraulics.save_results, wntr.sim.hydraulics.get_results,
               wntr.sim.hydraulics.initialize_results_dict)
    for s in ctrlplane.STUBS:
        rep.stub(s)
    rep.bound('one 4-node / 5-link template (pipes, head pump, TCV, tank); <= 4 hydraulic steps; failing solve index in [-1, steps+2]; report in {ALL, H, 2H}; one time control with a symbolic instant; '
              'trial storm with trials in {2, 3}')
    rep.bound('NewtonSolver.solve: its control flow is executed on a one-variable stub model with symbolic residual norms (any value in [0, 10] at every evaluation), a symbolic non-decreasing clock, '
              'MAXITER = 2, BT_MAXITER = 2, with / without backtracking, the Jacobian singular at iteration 0, 1 or never (real scipy call on the real matrix): every ending is a status triple, '
              'converged only below the tolerance. What the linear algebra does to the numbers, and finiteness of the results, are outside')
    rep.encode(NewtonSolver.solve)
    rep.bound('_solver_helper: every status fsolve can report (ier 0..5) and a raising / returning newton_krylov, on a stub model: converged only for success, values loaded only then')
    rep.stub('scipy.sparse.linalg in wntr.sim.solvers: the real routine runs on the real matrix with a float right-hand side; time.time -> symbolic non-decreasing clock')
    tasks = [('c16-' + cfg['name'], check_cfg, (cfg,)) for cfg in CFGS_QUICK] + [('solver', check_solver, ()), ('helper', check_helper, ())]
    run_parallel(rep, tasks)

"""C11  Simulating never alters the model definition; reset and rerun reproduce results.

The REAL run_sim (vf.ctrlplane) on the vf.runkit scenario with controls whose instants and values are symbolic:
  definition/*   wntr.network.to_dict(wn) - executed on the model holding proxies - is the same structure before and after
                 the run, leaf by leaf (z3 equality of every numeric leaf, plain equality of the others), for each kind of
                 controllable attribute: pipe/pump/valve status, valve setting, leak_status, pump power, pump base_speed;
                 also for the EpanetSimulator half: to_dict is unchanged by the real InpFile.write (the only Python that
                 touches the model there)
  reset/*        after reset_initial_values() a second run records exactly what the first recorded (times, statuses, settings,
                 tank heads, leak flags, demands), also when the first run was cut short
  copy/*         a deepcopy of the model and a model rebuilt by from_dict(to_dict()) record the same as the original
'Equal up to floating-point noise' of real numeric reruns needs the Newton solve and is outside.
"""
import copy
import z3

import wntr
import wntr.sim.core as core
from wntr.network.base import LinkStatus
from wntr.network import controls as C, elements as EL, model as NM

from .. import symx, ctrlplane, runkit
from ..symx import Sym, real
from ..harness import SymVars, ConcVars, compare
from ..report import guarded, run_parallel

CFGS = [
    dict(name='pipe-status', H=3600, dur=2 * 3600, head_pump=True, controls=[dict(kind='status', target='P2', value=0), dict(kind='status', target='P2', value=1)]),
    dict(name='valve-status', H=3600, dur=3600, controls=[dict(kind='status', target='VT', value=0), dict(kind='status', target='P2', value=0)]),
    dict(name='valve-setting', H=3600, dur=2 * 3600, controls=[dict(kind='setting', target='VT', value='sym'), dict(kind='status', target='VT', value=1)]),
    dict(name='pump-status+leak', H=3600, dur=2 * 3600, controls=[dict(kind='status', target='PP', value=0), dict(kind='leak', target='J2')]),
    dict(name='level+rule', H=3600, R=1800, dur=2 * 3600, controls=[dict(kind='level', target='P2', rel='gt', value=0), dict(kind='rule', target='VT', rel='ge', then=0)]),
    dict(name='pump-power', H=3600, dur=3600, controls=[dict(kind='power', target='PP', value='sym')]),
    dict(name='pump-speed', H=3600, dur=3600, controls=[dict(kind='base_speed', target='PP', value='sym')]),
    dict(name='dead-end-closed', H=3600, dur=2 * 3600, dead_end=True, controls=[dict(kind='status', target='P4', value=0)]),
    dict(name='report-finer-than-H', H=3600, report=1200, dur=3600, controls=[dict(kind='status', target='P2', value=0)]),
    dict(name='report-not-a-multiple-of-H', H=3600, report=5400, dur=2 * 3600, controls=[dict(kind='status', target='P2', value=0)]),
    dict(name='tank-leak', H=3600, dur=3600, controls=[dict(kind='leak', target='T'), dict(kind='status', target='P3', value=0)]),
]


CFGS_THOROUGH = CFGS + [
    dict(name='pipe-status-3-steps', H=3600, dur=3 * 3600, head_pump=True, controls=[dict(kind='status', target='P2', value=0), dict(kind='status', target='P2', value=1)]),
    dict(name='valve-setting+pump-status', H=3600, dur=2 * 3600, controls=[dict(kind='setting', target='VT', value='sym'), dict(kind='status', target='PP', value=0)]),
    dict(name='level+leak', H=3600, dur=2 * 3600, controls=[dict(kind='level', target='P2', rel='lt', value=0), dict(kind='leak', target='J2')]),
    dict(name='rule-else+clock', H=3600, R=1200, dur=2 * 3600, clock=True, controls=[dict(kind='rule', target='P2', rel='lt', then=0, **{'else': 1}), dict(kind='status', target='VT', value=0, clock=True)]),
]


def model_dict(wn):
    d = wntr.network.to_dict(wn)
    d.pop('version', None)
    d.pop('comment', None)
    return d


def check_cfg(rep, cfg):
    tag = cfg['name']
    plane = ctrlplane.Plane(runkit.policy())
    undo = [symx.install_shims(wntr.network.io, ('int', 'float', 'isinstance'))]
    try:
        with ctrlplane.installed(plane):
            def harness(c):
                V = SymVars(c)
                wn = runkit.build(V, cfg)
                twin = copy.deepcopy(wn)
                before = model_dict(wn)
                r1 = runkit.snapshot(plane.run(wn))
                after = model_dict(wn)
                wn.reset_initial_values()
                r2s = runkit.snapshot(ctrlplane.rerun_same_simulator(plane))      # the same WNTRSimulator object, as in the documentation
                wn.reset_initial_values()
                r2 = runkit.snapshot(plane.run(wn))
                # a run cut short, then reset, then the full run again
                wn.reset_initial_values()
                wn.options.time.duration = cfg['H']
                plane.run(wn)
                wn.options.time.duration = cfg['dur']
                wn.reset_initial_values()
                r3 = runkit.snapshot(plane.run(wn))
                r4 = runkit.snapshot(plane.run(twin))
                return V, before, after, r1, r2, r3, r4, r2s
            n = 0
            bad = set()
            for path in symx.explore(harness, max_paths=5000, timeout_s=400 if rep.tier == 'quick' else 2400):
                n += 1
                cons = path.constraints()
                if path.exc is not None:
                    if 'raised' not in bad:
                        bad.add('raised')
                        m_ = symx.satisfiable(cons)
                        rep.counterexample('run/%s/raised' % tag, dict(_inputs(m_.model), cfg=cfg, why='%s: %s' % (type(path.exc).__name__, path.exc)), 'run')
                    continue
                V, before, after, r1, r2, r3, r4, r2s = path.value
                wit = lambda mdl, V=V: V.witness(mdl, cfg=cfg)
                for name, a, b in (('definition', before, after), ('reset', r1, r2), ('reset-same-simulator', r1, r2s), ('reset-after-partial-run', r1, r3), ('copy', r1, r4)):
                    if name in bad:
                        continue
                    mism, claims = compare(a, b)
                    if mism:
                        bad.add(name)
                        m_ = symx.satisfiable(cons)
                        rep.counterexample('%s/%s' % (name, tag), dict(V.witness(m_.model, cfg=cfg), what=name, why='; '.join(mism[:3])), 'run')
                        continue
                    if not rep.prove('%s/%s/path%d' % (name, tag, n), cons, z3.And(*[cl for _, cl in claims]) if claims else z3.BoolVal(True),
                                     lambda mdl, V=V, name=name: V.witness(mdl, cfg=cfg, what=name), 'run',
                                     sample='%s: %d symbolic leaves equal, structure identical' % (name, len(claims))):
                        bad.add(name)
            rep.extra['paths_' + tag] = n
            if not bad:
                rep.reach('run/' + tag, cons)
    finally:
        for u in undo:
            u()


def _inputs(model):
    out = {}
    for d in model.decls():
        if d.arity() == 0 and not str(d).startswith(('choice', 'sqrt', 'tok', 'floor', 'pow')):
            try:
                out[str(d)] = symx.model_value(model, d())
            except Exception:
                pass
    return out


def replay_run(i):
    """real simulator, real Newton solve"""
    import warnings
    cfg = i['cfg']
    V = ConcVars(_Default(i))
    wn = runkit.build(V, cfg)
    twin = copy.deepcopy(wn)
    before = model_dict(wn)

    def run(w):
        with warnings.catch_warnings():
            warnings.simplefilter('ignore')
            return runkit.frames_snapshot(wntr.sim.WNTRSimulator(w).run_sim())
    try:
        r1 = run(wn)
    except Exception as ex:
        return 'run_sim raised %s: %s' % (type(ex).__name__, ex)
    what = i.get('what')
    after = model_dict(wn)
    mism, _ = compare(before, after, tol=(1e-12, 1e-12))
    if mism and what in (None, 'definition'):
        return 'the model dictionary changed during the run: ' + '; '.join(mism[:3])
    tol = (1e-6, 1e-8)
    if what in (None, 'reset-same-simulator'):
        w2 = runkit.build(V, cfg)
        with warnings.catch_warnings():
            warnings.simplefilter('ignore')
            sim = wntr.sim.WNTRSimulator(w2)
            ra = runkit.frames_snapshot(sim.run_sim())
            w2.reset_initial_values()
            rb = runkit.frames_snapshot(sim.run_sim())
        mism, _ = compare(ra, rb, tol=tol)
        if mism:
            return 'run, reset_initial_values, run again on the same WNTRSimulator object: the rerun differs: ' + '; '.join(mism[:3])
    wn.reset_initial_values()
    r2 = run(wn)
    mism, _ = compare(r1, r2, tol=tol)
    if mism and what in (None, 'reset'):
        return 'after reset_initial_values the rerun differs: ' + '; '.join(mism[:3])
    wn.reset_initial_values()
    wn.options.time.duration = cfg['H']
    run(wn)
    wn.options.time.duration = cfg['dur']
    wn.reset_initial_values()
    r3 = run(wn)
    mism, _ = compare(r1, r3, tol=tol)
    if mism and what in (None, 'reset-after-partial-run'):
        return 'a rerun after a partial run and reset differs: ' + '; '.join(mism[:3])
    r4 = run(twin)
    mism, _ = compare(r1, r4, tol=tol)
    if mism and what in (None, 'copy'):
        return 'a deepcopy of the model gives different results: ' + '; '.join(mism[:3])
    return None


class _Default(dict):
    def __missing__(self, k):
        return 1


# ------------------------------------------------------------------------------------------------
def check_inp_write(rep):
    """EpanetSimulator half that is Python: writing the INP file must not touch the model (concrete model, structural)"""
    import tempfile, os
    V = ConcVars(_Default({'t0': 3600, 't1': 5400, 't2': 7000, 'val0': 12.5, 'ls1': 1800, 'le1': 5400}))
    for cfg in CFGS[:3]:
        cfg = dict(cfg, report=cfg['H'])     # report_timestep='ALL' is a WNTR-only value the INP format has no place for
        wn = runkit.build(V, cfg)
        _pdd(wn)
        for n in list(wn.junction_name_list):
            if wn.get_node(n)._leak:
                wn.get_node(n).remove_leak(wn)
        before = model_dict(wn)
        with tempfile.TemporaryDirectory(dir='/var/tmp') as d:
            wntr.network.write_inpfile(wn, os.path.join(d, 'x.inp'), units='GPM')
        mism, _ = compare(before, model_dict(wn))
        if mism:
            rep.counterexample('definition/inp-write/' + cfg['name'], dict(cfg=cfg, why='; '.join(mism[:3]), inp=True), 'inpwrite')
        else:
            rep.discharged('definition/inp-write/' + cfg['name'], sample='to_dict unchanged by write_inpfile')


def _pdd(wn):
    """pressure-dependent demand with a required pressure below the limit EPANET accepts (the writer must clamp it in the FILE only)"""
    wn.options.hydraulic.demand_model = 'PDD'
    wn.options.hydraulic.required_pressure = 0.06
    wn.options.hydraulic.minimum_pressure = 0.0


def replay_inpwrite(i):
    import tempfile, os
    cfg = dict(i['cfg'], report=i['cfg']['H'])
    V = ConcVars(_Default({'t0': 3600, 't1': 5400, 't2': 7000, 'val0': 12.5, 'ls1': 1800, 'le1': 5400}))
    wn = runkit.build(V, cfg)
    _pdd(wn)
    for n in list(wn.junction_name_list):
        if wn.get_node(n)._leak:
            wn.get_node(n).remove_leak(wn)
    before = model_dict(wn)
    with tempfile.TemporaryDirectory(dir='/var/tmp') as d:
        wntr.network.write_inpfile(wn, os.path.join(d, 'x.inp'), units='GPM')
    mism, _ = compare(before, model_dict(wn))
    return 'write_inpfile changed the model: ' + '; '.join(mism[:3]) if mism else None


def run(rep, only=None):
    rep.explanation = ('The real run_sim (Newton solve stubbed) on a scenario with symbolic control instants and values; the real to_dict runs on the model holding proxies before and after; '
                       'reset_initial_values, a partial run, deepcopy are exercised for real; every feasible path is explored and z3 decides equality of every symbolic leaf of the dictionaries '
                       'and of the recorded runs.')
    rep.encode(NM.WaterNetworkModel.reset_initial_values, C.ControlAction.__init__, C.ControlAction.run_control_action, C._InternalControlAction.run_control_action,
               core.WNTRSimulator.run_sim, wntr.network.io.to_dict, wntr.sim.hydraulics.store_results_in_network, wntr.sim.hydraulics.update_network_previous_values)
    for s in ctrlplane.STUBS:
        rep.stub(s)
    rep.bound('one 5-node scenario (pipes, TCV, power pump, tank, leak); controls on pipe/valve/pump status, valve setting, leak_status, pump power, pump base_speed, a tank-level control and a rule; '
              'instants, setting values and the level threshold symbolic; <= 2 hydraulic steps; run / reset / rerun / partial run / deepcopy')
    rep.bound('numeric reruns with the real Newton solve (equal up to floating-point noise) are outside; the EPANET binary cannot reach Python objects, its Python side (write_inpfile) is checked structurally')
    tasks = [('cfg-' + cfg['name'], check_cfg, (cfg,)) for cfg in (CFGS_THOROUGH if rep.tier == 'thorough' else CFGS)]
    tasks.append(('inp-write', check_inp_write, ()))
    run_parallel(rep, tasks)

"""C20  Demand, resilience and pump-cost metrics equal their documented formulas.

The real metric functions run on models / result tables whose numeric entries are z3 proxies (pandas
object dtype); the returned entries are z3 terms and the solver decides, for ALL values, equality with
the documented formula.

  demand/*     expected_demand(wn,...)[t][j] == sum_k base_k * mult_k[((t+pattern_start)//dt) mod n_k] * multiplier
               (pattern_start symbolic Int: this is the requested demand WNTRSimulator uses, C01-4)
  average/*    average_expected_demand == mean over one common period of all patterns (pattern lengths from a
               list incl. lengths that do not divide 24 h), category filter
  period/*     _gcd/_lcm/_lcml on symbolic ints: result is a common multiple / divisor
  wsa, todini, mri, tank_capacity, population, pump power/energy/cost, annual cost / ghg: term equality
"""
import math
from fractions import Fraction as Fr

import numpy as np
import pandas as pd
import z3

import wntr
from wntr.metrics import hydraulic as MH, misc as MM, economic as ME
from wntr.network import elements as EL

from .. import symx
from ..symx import Sym, real, rv, zabs
from ..harness import SymVars, ConcVars, select, close
from ..report import guarded

G = 9.81


# ------------------------------------------------------------------------------------------------
# template network (same builder for symbolic harness and float replay)
# ------------------------------------------------------------------------------------------------
def build(V, cfg):
    nA, nB, dt = cfg['nA'], cfg['nB'], cfg['dt']
    wn = wntr.network.WaterNetworkModel()
    wn.options.time.pattern_timestep = dt
    wn.options.time.report_timestep = cfg.get('rt', dt)
    wn.options.time.duration = cfg.get('dur', 4 * dt)
    wn.options.time.hydraulic_timestep = cfg.get('rt', dt)
    wn.add_pattern('A', [1.0] * nA)
    wn.add_pattern('B', [1.0] * nB)
    wn.add_reservoir('R1', base_head=50.0)
    wn.add_reservoir('R2', base_head=20.0)
    wn.add_tank('T', elevation=10.0, init_level=3.0, min_level=1.0, max_level=8.0, diameter=12.0)
    wn.add_curve('VC', 'VOLUME', [(0.0, 0.0), (2.0, 100.0), (8.0, 700.0)])
    wn.add_tank('TV', elevation=12.0, init_level=3.0, min_level=1.0, max_level=8.0, diameter=10.0, vol_curve='VC')
    wn.add_junction('J1', base_demand=1.0, demand_pattern='A', elevation=5.0, demand_category='a')
    wn.get_node('J1').add_demand(1.0, 'B', 'b')
    wn.add_junction('J2', base_demand=1.0, demand_pattern='B', elevation=7.0, demand_category='b')
    wn.add_junction('J3', base_demand=1.0, elevation=2.0)
    if cfg.get('nC'):
        # a third pattern that reaches its junction through the demand list itself (the route the [DEMANDS] reader takes)
        wn.add_pattern('C', [1.0] * cfg['nC'])
        wn.get_node('J3').demand_timeseries_list.append((1.0, 'C', 'c'))
    wn.add_pipe('P1', 'R1', 'J1', length=100.0, diameter=0.3)
    wn.add_pipe('P2', 'J1', 'J2', length=200.0, diameter=0.2)
    wn.add_pipe('P3', 'J2', 'T', length=300.0, diameter=0.25)
    wn.add_pipe('P4', 'J2', 'TV', length=50.0, diameter=0.45)
    wn.add_pipe('P5', 'J3', 'J1', length=80.0, diameter=0.15)
    if cfg.get('pumps', True):
        wn.add_curve('PC', 'HEAD', [(0.05, 30.0)])
        wn.add_pump('HP', 'R2', 'J3', 'HEAD', 'PC')
        wn.add_pump('PP', 'R1', 'J2', 'POWER', 5000.0)
    wn.add_valve('V1', 'J3', 'J2', 0.3, 'PRV', 0.0, 20.0)
    wn.add_valve('V2', 'J1', 'J2', 0.3, 'TCV', 0.0, 20.0)
    info = {'dt': dt, 'patterns': {}, 'demands': {}}
    for pn, n in (('A', nA), ('B', nB)) + ((('C', cfg['nC']),) if cfg.get('nC') else ()):
        ms = [V.real('m%s%d' % (pn, i), -5, 5) for i in range(n)]
        arr = np.empty(n, dtype=object)
        for i, m in enumerate(ms):
            arr[i] = m
        wn.get_pattern(pn)._multipliers = arr
        info['patterns'][pn] = ms
    for jn in ('J1', 'J2', 'J3'):
        j = wn.get_node(jn)
        lst = []
        for k, ts in enumerate(j.demand_timeseries_list):
            b = V.real('b_%s_%d' % (jn, k), -2, 2)
            ts._base = b
            lst.append((b, ts.pattern_name, ts.category))
        info['demands'][jn] = lst
    mult = V.real('dmult', 0, 10)
    wn.options.hydraulic.__dict__['demand_multiplier'] = mult
    info['mult'] = mult
    if cfg.get('ps') == 'sym':
        ps = V.int('pattern_start', 0, cfg.get('ps_max', 2 * dt))
    else:
        ps = cfg.get('ps', 0)
    wn.options.time.__dict__['pattern_start'] = ps
    info['pattern_start'] = ps
    return wn, info


def oracle_demand(info, j, t, cat=None):
    tot = 0.0
    for base, pat, category in info['demands'][j]:
        if cat and category != cat:
            continue
        if pat is None or pat not in info['patterns']:
            m = 1.0
        else:
            ms = info['patterns'][pat]
            n = len(ms)
            if n == 1:
                m = ms[0]
            else:
                step = (t + info['pattern_start']) // info['dt']
                m = select(ms, step % n)
        tot = tot + base * m * info['mult']
    return tot


def _shims():
    undo = [symx.install_shims(EL, ('int', 'float', 'isinstance', 'np')),
            symx.install_shims(MH, ('int', 'isinstance')),
            symx.install_shims(ME, ('isinstance', 'np'))]
    symx.install_pandas_shim()

    def u():
        for f in undo:
            f()
    return u


# ------------------------------------------------------------------------------------------------
# demand
# ------------------------------------------------------------------------------------------------
DEMAND_CFGS = [
    dict(nA=3, nB=2, dt=3600, rt=3600, ps='sym', times=(0, 7200, 3600), cat=None),
    dict(nA=2, nB=3, dt=3600, rt=1800, ps='sym', times=(900, 4500, 1800), cat=None),
    dict(nA=3, nB=1, dt=1800, rt=3600, ps='sym', ps_max=3600, times=(0, 3600, 3600), cat='b'),
]


def check_demand(rep, k, cfg):
    tag = 'cfg%d(nA=%d,nB=%d,dt=%d,step=%d,cat=%s)' % (k, cfg['nA'], cfg['nB'], cfg['dt'], cfg['times'][2], cfg['cat'])
    undo = _shims()
    try:
        def harness(c):
            V = SymVars(c)
            wn, info = build(V, cfg)
            s, e, st = cfg['times']
            df = MH.expected_demand(wn, s, e, st, category=cfg['cat'])
            return V, info, df
        n = 0
        bad = False
        for path in symx.explore(harness, max_paths=400, timeout_s=300):
            if path.exc is not None:
                raise path.exc
            V, info, df = path.value
            n += 1
            claims = []
            for t in df.index:
                for j in df.columns:
                    claims.append(real(df.loc[t, j]) == real(oracle_demand(info, j, int(t), cfg['cat'])))
            ok = rep.prove('demand/%s/path%d' % (tag, n), path.constraints(), z3.And(*claims),
                           lambda m, V=V: V.witness(m, cfg=cfg), 'demand',
                           sample='expected_demand[t][j] == sum base*mult[((t+pattern_start)//dt)%n]*multiplier for all t,j on this path')
            if not ok:
                bad = True
                break  # one counterexample per configuration is enough
        if not bad:
            rep.reach('demand/' + tag, path.constraints())
    finally:
        undo()


def replay_demand(i):
    cfg = i['cfg']
    V = ConcVars(i)
    wn, info = build(V, cfg)
    s, e, st = cfg['times']
    df = MH.expected_demand(wn, s, e, st, category=cfg['cat'])
    for t in df.index:
        for j in df.columns:
            o = oracle_demand(info, j, int(t), cfg['cat'])
            if not close(df.loc[t, j], o, 1e-9, 1e-12):
                return 'expected_demand[%d][%s] = %r but base x pattern[(t+pattern_start)//dt] x multiplier = %r (pattern_start=%r)' % (
                    t, j, df.loc[t, j], o, info['pattern_start'])
    return None


# ------------------------------------------------------------------------------------------------
# average over a whole common period
# ------------------------------------------------------------------------------------------------
AVG_CFGS_QUICK = [
    dict(nA=5, nB=1, dt=3600, ps=0, cat=None),
    dict(nA=7, nB=2, dt=3600, ps=0, cat=None),
    dict(nA=5, nB=3, dt=7200, ps=5400, cat='a'),
    dict(nA=24, nB=4, dt=3600, ps=0, cat=None),
    dict(nA=2, nB=3, nC=7, dt=3600, ps=0, cat=None),
]
AVG_CFGS_THOROUGH = AVG_CFGS_QUICK + [
    dict(nA=36, nB=5, dt=3600, ps=0, cat=None),
    dict(nA=9, nB=10, dt=1800, ps=900, cat='b'),
    dict(nA=11, nB=1, dt=900, ps=0, cat=None),
]


def oracle_average(info, j, cfg):
    P = 1
    for pn, ms in info['patterns'].items():
        P = math.lcm(P, len(ms))
    tot = 0.0
    for i in range(P):
        tot = tot + oracle_demand(dict(info, pattern_start=0), j, i * cfg['dt'], cfg['cat'])
    return tot / P


def check_average(rep, k, cfg):
    tag = 'cfg%d(nA=%d,nB=%d,dt=%d,ps=%s,cat=%s)' % (k, cfg['nA'], cfg['nB'], cfg['dt'], cfg['ps'], cfg['cat'])
    undo = _shims()
    try:
        def harness(c):
            V = SymVars(c)
            wn, info = build(V, cfg)
            ser = MH.average_expected_demand(wn, category=cfg['cat'])
            return V, info, ser
        for path in symx.explore(harness, max_paths=8, timeout_s=300):
            if path.exc is not None:
                raise path.exc
            V, info, ser = path.value
            claims = [real(ser[j]) == real(oracle_average(info, j, cfg)) for j in ser.index]
            rep.prove('average/' + tag, path.constraints(), z3.And(*claims), lambda m, V=V: V.witness(m, cfg=cfg), 'average',
                      sample='average_expected_demand[j] == mean of base*mult*multiplier over lcm of pattern periods')
            rep.reach('average/' + tag, path.constraints())
    finally:
        undo()


def replay_average(i):
    cfg = i['cfg']
    V = ConcVars(i)
    wn, info = build(V, cfg)
    ser = MH.average_expected_demand(wn, category=cfg['cat'])
    for j in ser.index:
        o = oracle_average(info, j, cfg)
        if not close(ser[j], o, 1e-9, 1e-12):
            return 'average_expected_demand[%s] = %r but the mean over one common period (%d pattern steps) is %r' % (
                j, ser[j], math.lcm(cfg['nA'], cfg['nB'], cfg.get('nC') or 1), o)
    return None


# ------------------------------------------------------------------------------------------------
# period helpers _gcd/_lcm/_lcml
# ------------------------------------------------------------------------------------------------
def check_period(rep, hi):
    undo = symx.install_shims(MH, ('int',))
    try:
        def harness(c):
            V = SymVars(c)
            c.concretize_divisors = True
            x, y = V.int('x', 1, 100000), V.int('y', 1, hi)
            return V, x, y, MH._gcd(x, y), MH._lcm(x, y)
        n = 0
        for path in symx.explore(harness, max_paths=20000, timeout_s=240):
            if path.exc is not None:
                raise path.exc
            V, x, y, g, l = path.value
            n += 1
            if g is None:
                rep.counterexample('period/gcd-none', V.witness(symx.satisfiable(path.constraints()).model), 'period')
                return
            qx, qy, ql1, ql2 = z3.Int('qx'), z3.Int('qy'), z3.Int('ql1'), z3.Int('ql2')
            lr = real(l)
            claim = z3.And(g.e > 0, x.e % g.e == 0, y.e % g.e == 0, lr == z3.ToReal(z3.ToInt(lr)),
                           z3.ToInt(lr) % x.e == 0, z3.ToInt(lr) % y.e == 0, lr > 0)
            ok = rep.prove('period/gcd-lcm/path%d' % n, path.constraints(), claim, lambda m, V=V: V.witness(m), 'period',
                           sample='_gcd(x,y) divides x and y; _lcm(x,y) is a positive common multiple (1 <= x <= 100000, 1 <= y <= %d)' % hi)
            if not ok:
                return
        rep.reach('period', path.constraints())
        rep.extra['period_paths'] = n
    finally:
        undo()


def replay_period(i):
    x, y = int(i['x']), int(i['y'])
    g = MH._gcd(x, y)
    l = MH._lcm(x, y)
    if g is None or g <= 0 or x % g or y % g:
        return '_gcd(%d,%d) = %r is not a common divisor' % (x, y, g)
    if l != int(l) or int(l) % x or int(l) % y:
        return '_lcm(%d,%d) = %r is not a common multiple' % (x, y, l)
    return None


# ------------------------------------------------------------------------------------------------
# result-table metrics
# ------------------------------------------------------------------------------------------------
def _tables(V, wn, times=(0, 3600)):
    nodes = wn.node_name_list
    links = wn.link_name_list

    def frame(prefix, cols, lo, hi):
        d = {}
        for cn in cols:
            d[cn] = [V.real('%s_%s_%d' % (prefix, cn, k), lo, hi) for k in range(len(times))]
        return pd.DataFrame(d, index=list(times), dtype=object)
    head = frame('h', nodes, -100, 500)
    pressure = frame('p', nodes, -100, 500)
    demand = frame('d', nodes, -5, 5)
    flow = frame('q', links, -5, 5)
    return head, pressure, demand, flow


TCFG = dict(nA=2, nB=1, dt=3600)


def check_tables(rep):
    undo = _shims()
    try:
        def harness(c):
            V = SymVars(c)
            wn, info = build(V, TCFG)
            head, pressure, demand, flow = _tables(V, wn)
            out = {}
            pstar = V.real('Pstar', 0, 100)
            out['todini'] = MH.todini_index(head, pressure, demand, flow, wn, pstar)
            J = wn.junction_name_list
            elev = pd.Series({j: V.real('el_%s' % j, -100, 500) for j in J}, dtype=object)
            out['mri_j'] = MH.modified_resilience_index(pressure[J], elev, pstar, per_junction=True)
            out['mri_s'] = MH.modified_resilience_index(pressure[J], elev, pstar, demand=demand[J], per_junction=False)
            exp = pd.DataFrame({j: [V.real('e_%s_%d' % (j, k), -5, 5) for k in (0, 1)] for j in J}, index=[0, 3600], dtype=object)
            out['wsa'] = MH.water_service_availability(exp, demand[J])
            out['wsa_t'] = MH.water_service_availability(exp.sum(axis=1), demand[J].sum(axis=1))
            # tanks
            T, TV = wn.get_node('T'), wn.get_node('TV')
            T._diameter = V.pos('T_diam', 0.1, 100)
            T._max_level = V.pos('T_max', 0.5, 50)
            TV._max_level = V.real('TV_max', 2.5, 7.5)
            pts = [(0.0, V.real('vc_v0', 0, 10)), (2.0, V.real('vc_v1', 10, 200)), (8.0, V.real('vc_v2', 200, 900))]
            wn.get_curve('VC')._points = pts
            out['tank_capacity'] = MH.tank_capacity(pressure[wn.tank_name_list], wn)
            # pumps
            eff = V.pos('eff', 1, 100)
            price = V.real('price', 0, 1)
            wn.options.energy.__dict__['global_efficiency'] = eff
            wn.options.energy.__dict__['global_price'] = price
            pp_price = V.real('pp_price', 0, 1)
            priced = V.choice('priced_pump', ['PP', 'HP'])          # the pump with a price of its own comes first or last in wn.pumps()
            wn.get_link(priced)._energy_price = pp_price
            rt = V.int('report_timestep', 1, 86400)
            wn.options.time.__dict__['report_timestep'] = rt
            P = wn.pump_name_list
            out['power'] = ME.pump_power(flow[P], head, wn)
            out['energy'] = ME.pump_energy(flow[P], head, wn)
            out['cost'] = ME.pump_cost(out['energy'], wn)
            ctx = dict(head=head, pressure=pressure, demand=demand, flow=flow, pstar=pstar, elev=elev, exp=exp, T=(T._diameter, T._max_level),
                       TVmax=TV._max_level, pts=pts, eff=eff, price=price, pp_price=pp_price, priced=priced, rt=rt, wn=wn)
            return V, out, ctx
        npaths = 0
        for path in symx.explore(harness, max_paths=64, timeout_s=300):
            if path.exc is not None:
                raise path.exc
            npaths += 1
            V, out, x = path.value
            cons = path.constraints()
            _table_claims(rep, V, out, x, cons, 'path%d' % npaths)
        rep.reach('tables', cons)
    finally:
        undo()


def _oracle_tables(x, conc=False):
    """documented formulas on the same inputs; polymorphic (proxies or floats). returns {name: {(t,col): value}}"""
    wn = x['wn']
    head, pressure, demand, flow = x['head'], x['pressure'], x['demand'], x['flow']
    J, R, P = wn.junction_name_list, wn.reservoir_name_list, wn.pump_name_list
    o = {k: {} for k in ('todini', 'mri_j', 'mri_s', 'wsa', 'wsa_t', 'tank_capacity', 'power', 'energy', 'cost')}
    for t in head.index:
        pout = sum(demand.loc[t, j] * head.loc[t, j] for j in J)
        pexp = sum(demand.loc[t, j] * (x['pstar'] + (head.loc[t, j] - pressure.loc[t, j])) for j in J)
        pres = sum(-demand.loc[t, r] * head.loc[t, r] for r in R)
        ppump = 0.0
        for p in P:
            l = wn.get_link(p)
            ppump = ppump + flow.loc[t, p] * abs(head.loc[t, l.end_node_name] - head.loc[t, l.start_node_name])
        o['todini'][t] = (pout - pexp, pres + ppump - pexp)  # numerator, denominator
        num, den = 0.0, 0.0
        for j in J:
            o['mri_j'][(t, j)] = (pressure.loc[t, j] - x['pstar'], x['pstar'] + x['elev'][j])
            num = num + demand.loc[t, j] * (pressure.loc[t, j] + x['elev'][j]) - demand.loc[t, j] * (x['pstar'] + x['elev'][j])
            den = den + demand.loc[t, j] * (x['pstar'] + x['elev'][j])
            o['wsa'][(t, j)] = (demand.loc[t, j], x['exp'].loc[t, j])
        o['mri_s'][t] = (num, den)
        o['wsa_t'][t] = (sum(demand.loc[t, j] for j in J), sum(x['exp'].loc[t, j] for j in J))
        # tank capacity
        D, mx = x['T']
        o['tank_capacity'][(t, 'T')] = (math.pi / 4.0 * D * D * pressure.loc[t, 'T'], math.pi / 4.0 * D * D * mx)
        pts = x['pts']
        vol = lambda lev: symx.sym_interp(lev, [p[0] for p in pts], [p[1] for p in pts])
        o['tank_capacity'][(t, 'TV')] = (vol(pressure.loc[t, 'TV']), vol(x['TVmax']))
        for p in P:
            l = wn.get_link(p)
            dh = head.loc[t, l.end_node_name] - head.loc[t, l.start_node_name]
            pw_num = 1000.0 * G * dh * flow.loc[t, p]
            pw_den = x['eff'] / 100.0
            o['power'][(t, p)] = (pw_num, pw_den)
            o['energy'][(t, p)] = (pw_num * x['rt'], pw_den)
            pr = x['pp_price'] if p == x.get('priced', 'PP') else x['price']
            o['cost'][(t, p)] = (pw_num * x['rt'] * pr, pw_den)
    return o


def _get(res, key):
    if isinstance(key, tuple):
        return res.loc[key[0], key[1]]
    return res.loc[key] if hasattr(res, 'loc') else res[key]


def _table_claims(rep, V, out, x, cons, tag):
    o = _oracle_tables(x)
    for name, entries in o.items():
        claims, dens = [], []
        for key, (num, den) in entries.items():
            got = real(_get(out[name], key))
            claims.append(got * real(den) == real(num))
            dens.append(real(den) != 0)
        rep.prove('%s/%s' % (name, tag), cons + dens, z3.And(*claims), lambda m, V=V, name=name: V.witness(m, metric=name), 'tables',
                  sample='%s == documented formula for every entry (denominators nonzero)' % name)


def replay_tables(i):
    V = ConcVars(i)
    wn, info = build(V, TCFG)
    head, pressure, demand, flow = _tables(V, wn)
    J, P = wn.junction_name_list, wn.pump_name_list
    pstar = V.real('Pstar')
    elev = pd.Series({j: V.real('el_%s' % j) for j in J})
    exp = pd.DataFrame({j: [V.real('e_%s_%d' % (j, k)) for k in (0, 1)] for j in J}, index=[0, 3600])
    T, TV = wn.get_node('T'), wn.get_node('TV')
    T.diameter, T.max_level, TV.max_level = V.real('T_diam'), V.real('T_max'), V.real('TV_max')
    pts = [(0.0, V.real('vc_v0')), (2.0, V.real('vc_v1')), (8.0, V.real('vc_v2'))]
    wn.get_curve('VC').points = pts
    wn.options.energy.global_efficiency = V.real('eff')
    wn.options.energy.global_price = V.real('price')
    priced = i.get('choice:priced_pump', 'PP')
    wn.get_link(priced).energy_price = V.real('pp_price')
    wn.options.time.report_timestep = V.int('report_timestep')
    x = dict(head=head, pressure=pressure, demand=demand, flow=flow, pstar=pstar, elev=elev, exp=exp, T=(T.diameter, T.max_level),
             TVmax=TV.max_level, pts=pts, eff=V.real('eff'), price=V.real('price'), pp_price=V.real('pp_price'), priced=priced, rt=V.int('report_timestep'), wn=wn)
    name = i['metric']
    try:
        res = _metric(name, wn, head, pressure, demand, flow, pstar, elev, exp, J, P)
    except ArithmeticError as ex:
        # the documented formula is defined for these inputs (its denominators are checked below): a division by zero inside the
        # function means it divides by something else
        o = _oracle_tables(x)[name]
        if any(den != 0 for (num, den) in o.values()):
            return '%s raised %s: %s although the documented formula is defined for these tables' % (name, type(ex).__name__, ex)
        raise
    o = _oracle_tables(x)[name]
    for key, (num, den) in o.items():
        if den == 0:
            continue
        got = float(_get(res, key))
        if not close(got, num / den, 1e-7, 1e-9):
            return '%s%r = %r, documented formula gives %r' % (name, key, got, num / den)
    return None


def _metric(name, wn, head, pressure, demand, flow, pstar, elev, exp, J, P):
    if name == 'todini':
        res = MH.todini_index(head, pressure, demand, flow, wn, pstar)
    elif name == 'mri_j':
        res = MH.modified_resilience_index(pressure[J], elev, pstar, per_junction=True)
    elif name == 'mri_s':
        res = MH.modified_resilience_index(pressure[J], elev, pstar, demand=demand[J], per_junction=False)
    elif name == 'wsa':
        res = MH.water_service_availability(exp, demand[J])
    elif name == 'wsa_t':
        res = MH.water_service_availability(exp.sum(axis=1), demand[J].sum(axis=1))
    elif name == 'tank_capacity':
        res = MH.tank_capacity(pressure[wn.tank_name_list], wn)
    elif name == 'power':
        res = ME.pump_power(flow[P], head, wn)
    elif name == 'energy':
        res = ME.pump_energy(flow[P], head, wn)
    elif name == 'cost':
        res = ME.pump_cost(ME.pump_energy(flow[P], head, wn), wn)
    else:
        raise ValueError(name)
    return res


# ------------------------------------------------------------------------------------------------
# population
# ------------------------------------------------------------------------------------------------
class _RoundingSeries(pd.Series):
    """pandas' Series.round() is a silent no-op on object dtype: apply Python round() elementwise"""
    @property
    def _constructor(self):
        return _RoundingSeries

    def round(self, decimals=0, *a, **kw):
        return _RoundingSeries([symx.sym_round(v, None if decimals == 0 else decimals) for v in self.values], index=self.index, dtype=object)


def check_population(rep):
    undo = _shims()
    saved = MM.average_expected_demand
    try:
        def harness(c):
            V = SymVars(c)
            wn, info = build(V, dict(nA=2, nB=3, dt=3600, ps=0, cat=None))
            R = V.pos('R', 1e-7, 1e-3)
            MM.average_expected_demand = lambda wn_, **kw: _RoundingSeries(saved(wn_, **kw))
            pop = MM.population(wn, R)
            pop_default = MM.population(wn)
            avg = saved(wn)
            return V, R, pop, pop_default, avg
        for path in symx.explore(harness, max_paths=8):
            if path.exc is not None:
                raise path.exc
            V, R, pop, popd, avg = path.value
            claims = []
            for j in avg.index:
                for p, r in ((pop, real(R)), (popd, rv(0.00000876157))):
                    v = real(p[j])
                    q = real(avg[j]) / r
                    claims.append(z3.And(v == z3.ToReal(z3.ToInt(v)), zabs(v - q) <= rv(0.5)))
            rep.prove('population', path.constraints(), z3.And(*claims), lambda m, V=V: V.witness(m), 'population',
                      sample='population[j] is an integer within 0.5 of average_expected_demand[j]/R (R symbolic and default 200 gal/day)')
            rep.reach('population', path.constraints())
    finally:
        MM.average_expected_demand = saved
        undo()
    rep.stub('wntr.metrics.misc.average_expected_demand wrapped so that its Series rounds elementwise (pandas Series.round is a no-op on object dtype)')


def replay_population(i):
    V = ConcVars(i)
    wn, info = build(V, dict(nA=2, nB=3, dt=3600, ps=0, cat=None))
    R = V.real('R')
    avg = MH.average_expected_demand(wn)
    for p, r in ((MM.population(wn, R), R), (MM.population(wn), 0.00000876157)):
        for j in avg.index:
            if p[j] != round(p[j]) or abs(p[j] - avg[j] / r) > 0.5 + 1e-6 * abs(avg[j] / r):
                return 'population[%s] = %r, average demand / R = %r' % (j, p[j], avg[j] / r)
    return None


# ------------------------------------------------------------------------------------------------
# annual network cost / GHG
# ------------------------------------------------------------------------------------------------
TANK_TAB = ([500, 1000, 2000, 3750, 5000, 10000], [14020, 30640, 61210, 87460, 122420, 174930])
DIAM_IN = [4, 6, 8, 10, 12, 14, 16, 18, 20, 24, 28, 30]
PIPE_COST = [8.31, 10.1, 12.1, 12.96, 15.22, 16.62, 19.41, 22.2, 24.66, 35.69, 40.08, 42.6]
PRV_COST = [323, 529, 779, 1113, 1892, 2282, 4063, 4452, 4564, 5287, 6122, 6790]
PUMP_TAB = ([11310, 22620, 24880, 31670, 38000, 45240, 49760, 54280, 59710], [2850, 3225, 3307, 3563, 3820, 4133, 4339, 4554, 4823])
GHG = [5.9, 9.71, 13.94, 18.43, 23.16, 28.09, 33.09, 38.35, 43.76, 54.99, 66.57, 72.58]


def nearest(keys, vals, x):
    """value of the table entry whose key is closest to x (first one on exact ties); polymorphic"""
    if not isinstance(x, Sym):
        k = min(range(len(keys)), key=lambda i: (abs(keys[i] - x), i))
        return vals[k]
    out = rv(vals[-1])
    xr = real(x)
    for i in range(len(keys) - 2, -1, -1):
        best = z3.And(*[zabs(rv(keys[i]) - xr) <= zabs(rv(keys[k]) - xr) for k in range(len(keys)) if k != i])
        out = z3.If(best, rv(vals[i]), out)
    return Sym(out)


def no_ties(keys, x):
    return z3.And(*[zabs(rv(keys[i]) - real(x)) != zabs(rv(keys[k]) - real(x)) for i in range(len(keys)) for k in range(i + 1, len(keys))])


def _exp(x):
    return Sym(symx.uf('exp')(real(x))) if isinstance(x, Sym) else math.exp(x)


def _log(x):
    return Sym(symx.uf('log')(real(x))) if isinstance(x, Sym) else math.log(x)


def cost_setup(V, part):
    """template with the attributes that enter the cost of `part` symbolic"""
    wn, info = build(V, dict(TCFG, pumps=(part == 'pump')))
    x = {'wn': wn, 'part': part}
    if part == 'tank':
        T, TV = wn.get_node('T'), wn.get_node('TV')
        T._diameter = x['T_d'] = V.pos('T_diam', 1, 60)
        T._max_level = x['T_max'] = V.pos('T_max', 1, 40)
        TV._max_level = x['TV_max'] = V.real('TV_max', 2.5, 7.5)
        TV._min_level = x['TV_min'] = V.real('TV_min', 0, 2)
        x['pts'] = [(0.0, V.real('vc_v0', 0, 10)), (2.0, V.real('vc_v1', 10, 2000)), (8.0, V.real('vc_v2', 2000, 9000))]
        wn.get_curve('VC')._points = x['pts']
    elif part in ('pipe', 'ghg'):
        x['pipes'] = {}
        for n in ('P1', 'P2'):
            l = wn.get_link(n)
            l._diameter = V.pos('d_' + n, 0.01, 2)
            l._length = V.pos('L_' + n, 0.1, 10000)
            x['pipes'][n] = (l._diameter, l._length)
        for n in ('P3', 'P4', 'P5'):
            l = wn.get_link(n)
            l._length = V.pos('L_' + n, 0.1, 10000)
            x['pipes'][n] = (l.diameter, l._length)
    elif part == 'prv':
        v = wn.get_link('V1')
        v.diameter = x['V1_d'] = V.pos('d_V1', 0.01, 2)
        wn.get_link('V2').diameter = V.pos('d_V2', 0.01, 2)  # a TCV: must not be charged
    elif part == 'pump':
        x['eff'] = V.pos('eff', 1, 100)
        wn.options.energy.__dict__['global_efficiency'] = x['eff']
        x['pp_power'] = V.pos('pp_power', 100, 100000)
        wn.get_link('PP')._base_power = x['pp_power']
        x['Q'], x['H'] = 0.05, 30.0  # curve point concrete: symbolic Q, H make the argmin comparisons undecidable for z3 (exp/log UF x NRA)
    return wn, x


def cost_oracle(x):
    """contribution of the symbolic part to the annual network cost per the documentation"""
    part = x['part']
    ties = []
    if part == 'tank':
        D, mx = x['T_d'], x['T_max']
        v1 = math.pi * (D / 2) * (D / 2) * mx
        vol = symx.sym_interp(x['TV_max'], [p[0] for p in x['pts']], [p[1] for p in x['pts']])
        v2 = vol + x['TV_min'] * (vol / (x['TV_max'] - x['TV_min']))
        ties = [(TANK_TAB[0], v1), (TANK_TAB[0], v2)]
        return nearest(TANK_TAB[0], TANK_TAB[1], v1) + nearest(TANK_TAB[0], TANK_TAB[1], v2), ties
    if part in ('pipe', 'ghg'):
        keys = [float(d * 0.0254) for d in np.array(DIAM_IN)]
        keys = list(np.array(DIAM_IN) * 0.0254)
        tab = PIPE_COST if part == 'pipe' else GHG
        tot = 0.0
        for n, (d, L) in x['pipes'].items():
            tot = tot + nearest(keys, tab, d) * L
            if isinstance(d, Sym):
                ties.append((keys, d))
        return tot, ties
    if part == 'prv':
        keys = list(np.array(DIAM_IN) * 0.0254)
        return nearest(keys, PRV_COST, x['V1_d']), [(keys, x['V1_d'])]
    if part == 'pump':
        eff = x['eff'] / 100.0
        A = (4.0 / 3.0) * x['H']
        B = (1.0 / 3.0) * (x['H'] / (x['Q'] * x['Q']))
        C = 2
        qs = _exp(_log(A / (B * (C + 1))) / C)
        pmax = G * 1000.0 / eff * qs * (A - B * qs ** C)
        ppow = x['pp_power'] / eff
        return nearest(PUMP_TAB[0], PUMP_TAB[1], pmax) + nearest(PUMP_TAB[0], PUMP_TAB[1], ppow), [(PUMP_TAB[0], pmax), (PUMP_TAB[0], ppow)]
    raise ValueError(part)


def check_cost(rep, part):
    undo = _shims()
    try:
        def harness(c):
            V = SymVars(c)
            wn, x = cost_setup(V, part)
            if part != 'pump':
                wn.options.energy.__dict__['global_efficiency'] = 75.0
            tot = ME.annual_ghg_emissions(wn) if part == 'ghg' else ME.annual_network_cost(wn)
            return V, x, tot
        n = 0
        strict_failed = False
        for path in symx.explore(harness, max_paths=3000, timeout_s=600):
            if path.exc is not None:
                raise path.exc
            V, x, tot = path.value
            n += 1
            orc, ties = cost_oracle(x)
            rest = _rest_of_cost(part)
            cons = path.constraints() + [no_ties(k, v) for k, v in ties if isinstance(v, Sym)]

            def wit(m, V=V, tot=tot, x=x):
                w = V.witness(m, part=part)
                if part == 'pump':
                    # classify: does the code's total agree with reading the efficiency as a fraction of 1?
                    w['code_total'] = symx.model_value(m, real(tot))
                    alt, _ = cost_oracle(dict(x, eff=x['eff'] * 100.0))
                    w['pct_reading'] = abs(symx.model_value(m, real(alt) + rv(rest)) - w['code_total']) < 1e-6
                return w
            if not strict_failed:
                ok = rep.prove('annual_%s/path%d' % (part, n), cons, real(tot) == real(orc) + rv(rest), wit, 'cost',
                               sample='annual %s contribution == documented table(nearest) formula' % part)
                if not ok:
                    strict_failed = True
                    if part != 'pump':
                        break
            if part == 'pump':
                # independent of how the efficiency is read (percent vs fraction, see known findings): table lookup, formula shape, both pump kinds
                alt, ties2 = cost_oracle(dict(x, eff=x['eff'] * 100.0))
                cons2 = cons + [no_ties(k, v) for k, v in ties2 if isinstance(v, Sym)]
                rep.prove('annual_pumpshape/path%d' % n, cons2, z3.Or(real(tot) == real(orc) + rv(rest), real(tot) == real(alt) + rv(rest)),
                          lambda m, V=V: V.witness(m, part=part, shape=True), 'cost',
                          sample='pump cost == table(nearest(Pmax/eff)) with eff read as fraction or as percent')
        rep.extra['cost_paths_' + part] = n
    finally:
        undo()


class _Zero(dict):
    def __missing__(self, k):
        return 1.0


_REST = {}


def _rest_of_cost(part):
    """cost of the concrete remainder of the template, computed by the documented tables in plain floats"""
    if part in _REST:
        return _REST[part]
    V = ConcVars(_Zero())
    wn, _ = build(V, TCFG)
    keys = list(np.array(DIAM_IN) * 0.0254)
    tank = nearest(TANK_TAB[0], TANK_TAB[1], math.pi * 6.0 ** 2 * 8.0)
    vol = 700.0
    tank += nearest(TANK_TAB[0], TANK_TAB[1], vol + 1.0 * vol / 7.0)
    pipes = sum(nearest(keys, PIPE_COST, l.diameter) * l.length for _, l in wn.pipes())
    ghg = sum(nearest(keys, GHG, l.diameter) * l.length for _, l in wn.pipes())
    prv = nearest(keys, PRV_COST, 0.3)
    parts = {'tank': tank, 'pipe': pipes, 'prv': prv}  # templates for the non-pump parts contain no pumps
    if part == 'ghg':
        _REST[part] = 0.0
    else:
        _REST[part] = float(sum(v for k, v in parts.items() if k != part))
    return _REST[part]


def replay_cost(i):
    part = i['part']
    V = ConcVars(i)
    wn, x = cost_setup(V, part)
    if part != 'pump':
        wn.options.energy.global_efficiency = 75.0
    # public setters for the replay (private attributes were used only to carry proxies)
    tot = ME.annual_ghg_emissions(wn) if part == 'ghg' else ME.annual_network_cost(wn)
    orc, ties = cost_oracle(x)
    ref = orc + _rest_of_cost(part)
    if i.get('shape'):
        alt = cost_oracle(dict(x, eff=x['eff'] * 100.0))[0] + _rest_of_cost(part)
        if close(tot, ref, 1e-9, 1e-6) or close(tot, alt, 1e-9, 1e-6):
            return None
        return 'annual pump cost %r matches neither reading of the efficiency (%r as fraction, %r as percent)' % (tot, ref, alt)
    if not close(tot, ref, 1e-9, 1e-6):
        msg = 'annual_%s: function returns %r, documented tables/formula give %r' % (part, tot, ref)
        if part == 'pump':
            x2 = dict(x, eff=x['eff'] * 100.0)
            alt = cost_oracle(x2)[0] + _rest_of_cost(part)
            if close(tot, alt, 1e-9, 1e-6):
                msg += ' (the function divides the pump power by global_efficiency in percent, documented as a fraction)'
        return msg
    return None


# ------------------------------------------------------------------------------------------------
def run(rep, only=None):
    rep.explanation = ('The real wntr.metrics functions (and Demands/TimeSeries/Pattern.at, Tank.get_volume, get_head_curve_coefficients) run on '
                       'models and pandas object-dtype result tables whose numeric entries are z3 proxies; z3 decides equality of every returned '
                       'entry with the documented formula for all values (LRA/NRA; exp/log uninterpreted).')
    rep.encode(MH.expected_demand, MH.average_expected_demand, MH._gcd, MH._lcm, MH._lcml, MH.water_service_availability, MH.todini_index,
               MH.modified_resilience_index, MH.tank_capacity, MM.population, ME.pump_power, ME.pump_energy, ME.pump_cost, ME.annual_network_cost,
               ME.annual_ghg_emissions, EL.Pattern.at, EL.TimeSeries.at, EL.Demands.at, EL.Tank.get_volume, EL.HeadPump.get_head_curve_coefficients)
    rep.stub('int/float/isinstance/np shims in wntr.network.elements, wntr.metrics.hydraulic, wntr.metrics.economic (polymorphic on proxies)')
    rep.stub('pandas.core.nanops._ensure_numeric lets proxies through (object-dtype reductions)')
    rep.templates.append('2 reservoirs, cylindrical tank, volume-curve tank, 3 junctions (J1: two demand categories, J3: no pattern), 5 pipes, head pump, power pump, PRV, TCV')
    rep.bound('patterns: 2 patterns with lengths from a listed grid (1..36 entries, incl. 5, 7, 9, 11, 36 not dividing 24 h); multipliers, base demands, demand multiplier: any real in range')
    rep.bound('pattern_start: symbolic Int in [0, 2*pattern_timestep] for expected_demand; concrete {0, off-grid} for the average')
    rep.bound('result tables: 2 time rows x all elements of the template, every entry symbolic; denominators assumed nonzero')
    rep.bound('_gcd/_lcm: 1 <= x <= 100000 (symbolic), 1 <= y <= %d (divisors forked over their values)' % (24 if rep.tier == 'quick' else 60))
    rep.bound('annual cost/GHG: default tables only; exact ties between two table entries excluded; head pump with a concrete one-point curve (C = 2); efficiency and power-pump power symbolic')
    rep.assume('floats as reals')
    for k, cfg in enumerate(DEMAND_CFGS):
        guarded(rep, 'demand%d' % k, check_demand, rep, k, cfg)
    for k, cfg in enumerate(AVG_CFGS_THOROUGH if rep.tier == 'thorough' else AVG_CFGS_QUICK):
        guarded(rep, 'average%d' % k, check_average, rep, k, cfg)
    guarded(rep, 'period', check_period, rep, 24 if rep.tier == 'quick' else 60)
    guarded(rep, 'tables', check_tables, rep)
    guarded(rep, 'population', check_population, rep)
    for part in ('tank', 'pipe', 'prv', 'pump', 'ghg'):
        guarded(rep, 'cost-' + part, check_cost, rep, part)

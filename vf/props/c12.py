"""C12  Writing a model to an EPANET INP file and reading it back preserves it.

The kitchen-sink model K (vf.kitchen) is built with every numeric attribute a z3 proxy.  The REAL wntr.network.io.write_inpfile
writes it to a real file - a proxy is written as an all-digit token that remembers the value and the format spec it was written
with - and the REAL read_inpfile parses that file: float(token) yields a fresh symbolic value within half a unit of the last
digit the spec prints (so the unit conversion from_si on the way out, the rounding of the text and to_si on the way in are all
part of the term).  For each of the 10 flow units and both INP versions, on every feasible path:

   equivalent   the model read back has the same elements, connectivity, statuses, patterns, curves, demand categories, sources,
                options, tags, vertices, controls and rules (structure compared exactly after the normalisations the statement
                allows), and every numeric attribute is z3-proved to lie within the precision of the file format of the original
                (tolerance table below, in SI units)
   idempotent   a second write/read cycle: the second file has the same text as the first (token by token: the value written the
                second time equals the value read from the first file) and the model read from it is z3-equal to the first copy
   v2.0         the 2.0 file differs from the 2.2 file only in the options the statement names

Times are concrete (hh:mm:ss text is inspected by the parsers); time controls and clock controls carry symbolic instants.
"""
import os
import re
import copy
import shutil
import tempfile

import z3

import wntr
from wntr.network import io as NIO, elements as EL, model as NM, base as NB, controls as C, options as OPT
import wntr.epanet.io as EIO
import wntr.epanet.util as EU

from .. import symx, kitchen
from ..symx import Sym, real, rv, zabs
from ..harness import SymVars, ConcVars, compare
from ..report import guarded, run_parallel

MODS = [(NIO, ('int', 'float', 'isinstance', 'json')), (EIO, ('int', 'float', 'isinstance', 'np')), (EU, ('int', 'float', 'isinstance', 'np')),
        (C, ('int', 'float', 'isinstance', 'math', 'np')), (EL, ('int', 'float', 'isinstance', 'np')), (NM, ('int', 'float', 'isinstance')),
        (NB, ('int', 'float', 'isinstance')), (OPT, ('int', 'float', 'isinstance'))]

UNITS = ['CFS', 'GPM', 'MGD', 'IMGD', 'AFD', 'LPS', 'LPM', 'MLD', 'CMH', 'CMD']
# instants of the time controls are concrete (seconds that are awkward in decimal hours, beyond 100 h, last second of a day): with symbolic instants the
# H:MM:SS digits are nested div/mod terms that z3 does not get through together with the ~700 rounding relations
INSTANTS = dict(ct_time=7 * 3600 + 23 * 60, ct_time2=100 * 3600 + 1, rt_time=3 * 3600 + 59, ct_time3=59, ct_time4=86399, ct_time5=12 * 3600 + 34 * 60 + 56)
VARIANT = dict(name='full', leaks=False, controls=True, rules=True, quality=True, vertices=True, concrete_times=INSTANTS)
# the time options are concrete: each variant is one assignment (clock times in the noon / midnight hour, seconds, long runs)
TIME_VARIANTS = [
    dict(VARIANT, name='times-noon', times=dict(start_clocktime=12 * 3600 + 1800 + 15, report_start=1800, pattern_start=5400 + 30, quality_timestep=90, rule_timestep=75)),
    dict(VARIANT, name='times-midnight', times=dict(start_clocktime=15 * 60, duration=100 * 3600 + 59, hydraulic_timestep=900, report_timestep=2700, pattern_timestep=1800, pattern_start=0)),
    dict(VARIANT, name='clock-noon-midnight', clock_thresholds=(12 * 3600 + 45 * 60, 15 * 60)),
    dict(VARIANT, name='clock-midnight-noon', clock_thresholds=(0, 12 * 3600)),
    dict(VARIANT, name='times-pm', times=dict(start_clocktime=23 * 3600 + 59 * 60 + 59, duration=0, statistic='AVERAGED')),
]
_TOKEN = re.compile(r'987654321\d{8}')
_NUMBER = re.compile(r'(?<![A-Za-z_0-9:])-?\d+\.?\d*(?:[eE][-+]?\d+)?(?![A-Za-z_:0-9])')

# precision of the file format, in SI units: (relative, absolute) per attribute (regex on the path in the normalised dictionary)
TOL = [
    (r'/curves/[^/]+/points', (0.0, 1e-6)),                    # {:12f}: 6 decimals in file units, unit factors <= 1
    (r'/patterns/[^/]+/multipliers', (0.0, 1e-6)),             # {:f}
    (r'/options/energy/global_price', (0.0, 2e-11)),           # {:.4f} per kWh
    (r'/links/[^/]+/energy_price', (0.0, 2e-11)),
    (r'/options/energy/(global_efficiency|demand_charge)', (0.0, 1e-4)),
    (r'/options/hydraulic/(minimum_pressure|required_pressure)', (0.0, 1e-2)),    # {:.2f}
    (r'/(nodes/[^/]+/coordinates|links/[^/]+/vertices)', (0.0, 1e-9)),      # {:20.9f}
    (r'/(links|curves|nodes)/[^/]+/([a-z_]+/)?points', (0.0, 1e-6)),
    (r'/(nodes|links)/[^/]+/(bulk_coeff|wall_coeff)', (0.0, 1e-9)),         # [REACTIONS] {:<10.4f} per day
    (r'/options/reaction/(bulk_coeff|wall_coeff)', (0.0, 1e-9)),
    (r'/options/reaction/(limiting_potential|roughness_correl)', (0.0, 1e-4)),
    (r'/controls', (1e-5, 1e-9)),                              # rules: {:.6g}
    (r'/links/[^/]+/(initial_setting|base_speed)', (1e-6, 1e-9)),                # [STATUS] {:10.7g}, pump SPEED
    (r'.*', (1e-9, 1e-12)),                                    # {:15.11g} and str(): 11+ significant digits
]


OTHER_VARIANTS = [
    dict(VARIANT, name='darcy-weisbach', hyd=dict(headloss='D-W')),
    dict(VARIANT, name='chezy-manning', hyd=dict(headloss='C-M')),
    dict(VARIANT, name='defaults-not-written', hyd=dict(demand_model='DDA'), hyd_after=dict(headerror=0, flowchange=0, damplimit=0), speed=1.0),
    dict(VARIANT, name='gpv', gpv=True),
    dict(VARIANT, name='reaction-orders-2-0-0', orders=(2, 0, 0)),
    dict(VARIANT, name='reaction-orders-1-0-2', orders=(1, 0, 2)),
    dict(VARIANT, name='reaction-orders-0-1-1', orders=(0, 1, 1)),
    dict(VARIANT, name='no-quality', quality=False, vertices=False),
    dict(VARIANT, name='mixing-lifo-fifo', mixing={'T1': 'LIFO', 'T2': 'FIFO'}),
    dict(VARIANT, name='mixing-mixed-2comp0', mixing={'T1': 'Mixed', 'T2': 'TwoComp'}, mixfrac={'T2': 0.0}),
    dict(VARIANT, name='clock-once', clock_once=1),
    dict(VARIANT, name='or-of-and', or_of_and=True),
]


_DYN = {}


def set_reaction_tolerance(units, orders):
    """[REACTIONS] entries are written with 4 decimals IN FILE UNITS; what that is in SI depends on the unit system and the reaction order
    (the factors themselves are the subject of C17)"""
    from wntr.epanet.util import to_si, QualParam, MassUnits, FlowUnits
    fu = FlowUnits[units]
    bulk_order, wall_order, tank_order = orders
    _DYN['bulk'] = abs(float(to_si(fu, 1e-4, QualParam.BulkReactionCoeff, mass_units=MassUnits.mg, reaction_order=int(bulk_order)))) + 1e-12
    _DYN['wall'] = abs(float(to_si(fu, 1e-4, QualParam.WallReactionCoeff, mass_units=MassUnits.mg, reaction_order=int(wall_order)))) + 1e-12


def tol_of(path):
    if _DYN and re.match(r'/((nodes|links)/[^/]+|options/reaction)/bulk_coeff', path):
        return (0.0, _DYN['bulk'])
    if _DYN and re.match(r'/((nodes|links)/[^/]+|options/reaction)/wall_coeff', path):
        return (0.0, _DYN['wall'])
    for pat, t in TOL:
        if re.match(pat, path):
            return t
    return TOL[-1][1]


def _byname(lst, key='name'):
    return {e[key]: {k: v for k, v in e.items() if k != key} for e in lst}


V22_ONLY_HYD = ('demand_model', 'minimum_pressure', 'required_pressure', 'pressure_exponent', 'headerror', 'flowchange')


def normalise(d, version=2.2):
    """what the statement compares: elements by name, sources without names, no file name / comment / unit bookkeeping,
    nothing the INP format has no place for"""
    d = copy.deepcopy(d)
    for k in ('name', 'comment', 'version'):
        d.pop(k, None)
    opt = d.get('options', {})
    opt.get('hydraulic', {}).pop('inpfile_units', None)
    opt.get('hydraulic', {}).pop('inpfile_pressure_units', None)
    opt.get('time', {}).pop('pattern_interpolation', None)
    if version < 2.2:
        # the 2.0 format omits the EPANET 2.2-specific options (pressure driven analysis, HEADERROR / FLOWCHANGE, tank overflow)
        for k in V22_ONLY_HYD:
            opt.get('hydraulic', {}).pop(k, None)
    opt.pop('user', None)
    opt.pop('graphics', None)
    opt.pop('report', None)
    nodes = {}
    for n in d.get('nodes', []):
        n = dict(n)
        for k in ('minimum_pressure', 'required_pressure', 'pressure_exponent', 'leak', 'leak_area', 'leak_discharge_coeff', 'base_demand', 'demand_pattern', 'demand_category'):
            n.pop(k, None)
        dl = n.get('demand_timeseries_list')
        if dl is not None:
            dl = [dict(e) for e in dl]
            for e in dl:
                if e.get('pattern_name') in ('', None):
                    e['pattern_name'] = None
            n['demand_timeseries_list'] = dl
        if version < 2.2:
            n.pop('overflow', None)
        nodes[n.pop('name')] = n
    d['nodes'] = nodes
    d['links'] = _byname(d.get('links', []))
    d['patterns'] = _byname(d.get('patterns', []))
    d['curves'] = _byname(d.get('curves', []))
    d['sources'] = {'%s/%s' % (s['node_name'], s['source_type']): {k: v for k, v in s.items() if k != 'name'} for s in d.get('sources', [])}
    # simple controls have no name in an INP file and are written before the rules
    ctl = [dict(c) for c in d.get('controls', [])]
    d['controls'] = [c for c in ctl if c.get('type') != 'rule'] + [c for c in ctl if c.get('type') == 'rule']
    return d


def within(a, b, rel, ab):
    ta, tb = real(a), real(b)
    return zabs(ta - tb) <= rv(rel) * zabs(ta) + rv(ab)


def compare_tol(a, b, path, mism, claims):
    """structure exactly; numeric leaves within the file format's precision; text with tokens token by token"""
    import numpy as np
    if isinstance(a, np.ndarray):
        a = list(a)
    if isinstance(b, np.ndarray):
        b = list(b)
    if isinstance(a, dict) and isinstance(b, dict):
        for k in a:
            if k not in b:
                mism.append('%s/%s: lost' % (path, k))
        for k in b:
            if k not in a:
                mism.append('%s/%s: appeared' % (path, k))
        for k in a:
            if k in b:
                compare_tol(a[k], b[k], '%s/%s' % (path, k), mism, claims)
        return
    if isinstance(a, (list, tuple)) and isinstance(b, (list, tuple)):
        if len(a) != len(b):
            mism.append('%s: length %d vs %d' % (path, len(a), len(b)))
            return
        for i, (x, y) in enumerate(zip(a, b)):
            compare_tol(x, y, '%s[%d]' % (path, i), mism, claims)
        return
    num = lambda x: isinstance(x, Sym) or (isinstance(x, (int, float)) and not isinstance(x, bool))
    if num(a) and num(b):
        if not isinstance(a, Sym) and not isinstance(b, Sym):
            rel, ab = tol_of(path)
            if abs(a - b) > rel * abs(a) + ab:
                mism.append('%s: %r vs %r' % (path, a, b))
            return
        rel, ab = tol_of(path)
        claims.append((path, within(a, b, rel, ab)))
        return
    if isinstance(a, str) and isinstance(b, str) and a != b and (_TOKEN.search(a) or _TOKEN.search(b)):
        ta, tb = _TOKEN.findall(a), _TOKEN.findall(b)
        if _TOKEN.sub('#', a) != _TOKEN.sub('#', b) or len(ta) != len(tb):
            mism.append('%s: %r vs %r' % (path, _TOKEN.sub('<num>', a), _TOKEN.sub('<num>', b)))
            return
        rel, ab = tol_of(path)
        for x, y in zip(ta, tb):
            hx, hy = symx.TOKENS.lookup(x), symx.TOKENS.lookup(y)
            claims.append((path, within(hx[0], hy[0], rel, ab)))
        return
    if isinstance(a, str) and isinstance(b, str) and a != b:
        # replay side: text with plain numbers (control conditions / actions): same skeleton, numbers within the tolerance
        xa, xb = _NUMBER.findall(a), _NUMBER.findall(b)
        if _NUMBER.sub('#', a) == _NUMBER.sub('#', b) and len(xa) == len(xb):
            rel, ab = tol_of(path)
            if all(abs(float(x) - float(y)) <= rel * abs(float(x)) + ab for x, y in zip(xa, xb)):
                return
    if a != b and not (a is None and b is None):
        mism.append('%s: %r vs %r' % (path, a, b))


def sections(text):
    """section name -> its lines (comments dropped), sorted by their skeleton: the order of the elements inside a section follows the
    registries' insertion order, which is not part of the model"""
    out, cur = {}, None
    for l in text.splitlines():
        l = l.rstrip()
        if not l.strip() or l.lstrip().startswith(';'):
            continue
        if l.startswith('['):
            cur = l.strip()
            out.setdefault(cur, [])
        elif cur is not None:
            out[cur].append(l)
    ordered = ('[PATTERNS]', '[CURVES]', '[CONTROLS]', '[RULES]', '[DEMANDS]', '[VERTICES]')      # sections whose line order carries meaning
    for k in out:
        if k not in ordered:
            out[k] = sorted(out[k], key=lambda l: _TOKEN.sub('#', l))
    return out


def text_claims(t1, t2, readback):
    """second file == first file: same skeleton; the value written the second time is the value read from the first file"""
    s1, s2 = sections(t1), sections(t2)
    mism, claims = [], []
    if set(s1) != set(s2):
        return ['sections differ: %r' % sorted(set(s1) ^ set(s2))], []
    for sec in s1:
        if len(s1[sec]) != len(s2[sec]):
            mism.append('%s has %d lines in the second file, %d in the first' % (sec, len(s2[sec]), len(s1[sec])))
            continue
        for a, b in zip(s1[sec], s2[sec]):
            if _TOKEN.sub('#', a) != _TOKEN.sub('#', b):
                mism.append('%s: %r became %r' % (sec, _TOKEN.sub('<num>', a).strip(), _TOKEN.sub('<num>', b).strip()))
                continue
            for x, y in zip(_TOKEN.findall(a), _TOKEN.findall(b)):
                hx, hy = symx.TOKENS.lookup(x), symx.TOKENS.lookup(y)
                if symx.parse_spec(hx[1]) != symx.parse_spec(hy[1]):
                    mism.append('%s: written with %r first, %r the second time' % (sec, hx[1], hy[1]))
                    continue
                # same text = the same value formatted with the same spec, or the value that was read from the first file
                claims.append(('%s %s' % (sec, _TOKEN.sub('#', a).strip()[:50]), z3.Or(real(hy[0]) == real(hx[0]), real(hy[0]) == real(readback(hx)))))
    return mism, claims


V22_OPTION_LINES = ('HEADERROR', 'FLOWCHANGE', 'DEMAND MODEL', 'MINIMUM PRESSURE', 'REQUIRED PRESSURE', 'PRESSURE EXPONENT')


def _vnorm(sec, line):
    return [w for w in _TOKEN.sub('#', line).split() if not (sec == '[TANKS]' and w in ('YES', '*'))]


def version_claims(t20, t22):
    """the 2.0 file is the 2.2 file minus the EPANET 2.2-specific options (and the tank overflow column): same lines, same numbers"""
    s20, s22 = sections(t20), sections(t22)
    mism, claims = [], []
    if set(s20) != set(s22):
        return ['sections differ between the 2.0 and the 2.2 file: %r' % sorted(set(s20) ^ set(s22))], []
    for sec in s22:
        a22 = [l for l in s22[sec] if not (sec == '[OPTIONS]' and l.strip().upper().startswith(V22_OPTION_LINES))]
        a20 = s20[sec]
        if len(a20) != len(a22):
            mism.append('%s: %d lines in the 2.0 file, %d comparable lines in the 2.2 file' % (sec, len(a20), len(a22)))
            continue
        for x, y in zip(a20, a22):
            if _vnorm(sec, x) != _vnorm(sec, y):
                mism.append('%s: 2.0 writes %r, 2.2 writes %r' % (sec, _TOKEN.sub('<num>', x).strip(), _TOKEN.sub('<num>', y).strip()))
                continue
            for tx, ty in zip(_TOKEN.findall(x), _TOKEN.findall(y)):
                hx, hy = symx.TOKENS.lookup(tx), symx.TOKENS.lookup(ty)
                if symx.parse_spec(hx[1]) != symx.parse_spec(hy[1]):
                    mism.append('%s: format %r in 2.0, %r in 2.2' % (sec, hx[1], hy[1]))
                else:
                    claims.append((sec, real(hx[0]) == real(hy[0])))
    return mism, claims


def cycle(wn, units, version, d):
    f1, f2 = os.path.join(d, 'a.inp'), os.path.join(d, 'b.inp')
    NIO.write_inpfile(wn, f1, units=units, version=version)
    wn1 = NIO.read_inpfile(f1)
    NIO.write_inpfile(wn1, f2, units=units, version=version)
    wn2 = NIO.read_inpfile(f2)
    return NIO.to_dict(wn), NIO.to_dict(wn1), NIO.to_dict(wn2), open(f1).read(), open(f2).read()


def check_units(rep, units, version, var):
    tag = '%s/%s/%s' % (var['name'], units, version)
    set_reaction_tolerance(units, var.get('orders', (1, 1, 1)))
    undo = [symx.install_shims(m, names) for m, names in MODS]
    d = tempfile.mkdtemp(prefix='vf12.', dir='/var/tmp')
    try:
        def harness(c):
            V = SymVars(c)
            wn, syms = kitchen.build(V, var)
            t22 = None
            if version < 2.2:
                f22 = os.path.join(d, 'v22.inp')
                NIO.write_inpfile(wn, f22, units=units, version=2.2)
                t22 = open(f22).read()
            out = cycle(wn, units, version, d)
            return (V, c) + out + (t22,)
        n = 0
        bad = set()
        cons = []
        for path in symx.explore(harness, max_paths=2000, timeout_s=500 if rep.tier == 'quick' else 2400):
            n += 1
            cons = path.constraints()
            if path.exc is not None:
                if 'raised' not in bad:
                    bad.add('raised')
                    m_ = symx.satisfiable(cons)
                    rep.counterexample('inp/%s/raised' % tag, dict(var=var, units=units, version=version, why='%s: %s' % (type(path.exc).__name__, _TOKEN.sub('<num>', str(path.exc))[:300])), 'inp')
                continue
            V, c, d0, d1, d2, t1, t2, t22 = path.value
            n0, n1, n2 = normalise(d0, version), normalise(d1, version), normalise(d2, version)
            wit = lambda mdl, V=V, what=None: V.witness(mdl, var=var, units=units, version=version)
            if t22 is not None and 'version' not in bad:
                mism, claims = version_claims(t1, t22)
                if mism:
                    bad.add('version')
                    m_ = symx.satisfiable(cons)
                    rep.counterexample('inp/%s/version-2.0-omits-only-2.2-options' % tag, dict(V.witness(m_.model, var=var, units=units, version=version), what='version', why='; '.join(mism[:4])), 'inp')
                elif not rep.prove('inp/%s/version-2.0-omits-only-2.2-options/path%d' % (tag, n), cons, z3.And(*[cl for _, cl in claims]), wit, 'inp',
                                   sample='%d numbers identical in the 2.0 and the 2.2 file' % len(claims)):
                    bad.add('version')
            # --- equivalent
            mism, claims = [], []
            compare_tol(n0, n1, '', mism, claims)
            if mism:
                if 'equivalent' not in bad:
                    bad.add('equivalent')
                    m_ = symx.satisfiable(cons)
                    rep.counterexample('inp/%s/equivalent' % tag, dict(V.witness(m_.model, var=var, units=units, version=version), why='; '.join(mism[:4])), 'inp')
            else:
                groups = {}
                for pth, cl in claims:
                    sec = '/'.join(pth.split('/')[1:3]) if pth.startswith('/options') else pth.split('/')[1]
                    groups.setdefault(sec, []).append(cl)
                for sec, cls in sorted(groups.items()):
                    key = 'equivalent.' + sec
                    if key in bad:
                        continue
                    if not rep.prove('inp/%s/equivalent/%s/path%d' % (tag, sec, n), cons, z3.And(*cls), wit, 'inp', sample='%s: %d numeric attributes within the precision of the file' % (sec, len(cls))):
                        bad.add(key)
            # --- idempotent: text
            tokvals = c.__dict__.get('tokvals', {})

            def readback(hit):
                v = tokvals.get(id(hit))
                return v[1] if v is not None else hit[0]
            mism, claims = text_claims(t1, t2, readback)
            if mism:
                if 'text' not in bad:
                    bad.add('text')
                    m_ = symx.satisfiable(cons)
                    rep.counterexample('inp/%s/second-file' % tag, dict(V.witness(m_.model, var=var, units=units, version=version), why='; '.join(mism[:4])), 'inp')
            elif 'text' not in bad:
                if not rep.prove('inp/%s/second-file/path%d' % (tag, n), cons, z3.And(*[cl for _, cl in claims]), wit, 'inp', sample='%d numbers of the second file equal what was read from the first' % len(claims)):
                    bad.add('text')
            # --- idempotent: model
            mism, claims = compare(n1, n2)
            if mism:
                if 'second-model' not in bad:
                    bad.add('second-model')
                    m_ = symx.satisfiable(cons)
                    rep.counterexample('inp/%s/second-model' % tag, dict(V.witness(m_.model, var=var, units=units, version=version), why='; '.join(mism[:4])), 'inp')
            elif 'second-model' not in bad:
                hard = [cl for _, cl in claims if not z3.is_true(z3.simplify(cl))]
                rep.extra['second_model_trivial'] = rep.extra.get('second_model_trivial', 0) + len(claims) - len(hard)
                for k in range(0, max(len(hard), 1), 25):
                    if not rep.prove('inp/%s/second-model/%d/path%d' % (tag, k // 25, n), cons, z3.And(*hard[k:k + 25]) if hard else z3.BoolVal(True), wit, 'inp',
                                     sample='%d numeric attributes unchanged by the second cycle (%d syntactically identical)' % (len(claims), len(claims) - len(hard))):
                        bad.add('second-model')
                        break
        rep.extra['paths_' + tag] = n
        if n == 0:
            rep.harness_errors.append('inp/%s: no feasible path (vacuous harness)' % tag)
        if not bad and n:
            rep.reach('inp/' + tag, cons)
    finally:
        for u in undo:
            u()
        shutil.rmtree(d, ignore_errors=True)


# ---------------------------------------------------------------------------------------------------------------- example networks
def symbolise(V, wn):
    """every length, diameter, roughness, minor loss, elevation, base demand, tank level / diameter and reservoir head of a model that
    was read from an example INP file becomes a proxy in a band around its value (validity of tank levels kept by separated bands)"""
    def band(name, v, lo=0.5, hi=1.5, pad=0.0):
        v = float(v)
        a, b = sorted((v * lo, v * hi))
        return V.real(name, a - pad, b + pad)
    for n, p in wn.pipes():
        p._length = band('P_len_' + n, p._length)
        p._diameter = band('P_diam_' + n, p._diameter)
        p._roughness = band('P_rough_' + n, p._roughness)
        if p._minor_loss:
            p._minor_loss = band('P_minor_' + n, p._minor_loss)
    for n, j in wn.junctions():
        j._elevation = band('J_elev_' + n, j._elevation, pad=1.0)
        for k, ts in enumerate(j.demand_timeseries_list):
            if ts._base:
                ts._base = band('J_dem_%s_%d' % (n, k), ts._base)
    for n, t in wn.tanks():
        t._elevation = band('T_elev_' + n, t._elevation, pad=1.0)
        lo_, hi_, init = float(t._min_level), float(t._max_level), float(t._init_level)
        span = hi_ - lo_
        if span > 0 and lo_ + 0.25 * span <= init <= hi_ - 0.25 * span:
            t._min_level = V.real('T_min_' + n, lo_, lo_ + 0.1 * span)
            t._max_level = V.real('T_max_' + n, hi_ - 0.1 * span, hi_)
            t._init_level = V.real('T_init_' + n, lo_ + 0.2 * span, hi_ - 0.2 * span)
        t._diameter = band('T_diam_' + n, t._diameter)
        t._head = t._init_level + t._elevation
        t._prev_head = t._head
    for n, r in wn.reservoirs():
        r.head_timeseries._base = band('R_head_' + n, r.head_timeseries._base, pad=1.0)
    for n, v in wn.valves():
        v.diameter = band('V_diam_' + n, v.diameter)


def check_example(rep, fname, units):
    tag = 'example/%s/%s' % (os.path.basename(fname), units)
    undo = [symx.install_shims(m, names) for m, names in MODS]
    d = tempfile.mkdtemp(prefix='vf12.', dir='/var/tmp')
    try:
        def harness(c):
            V = SymVars(c)
            wn = NIO.read_inpfile(fname)
            symbolise(V, wn)
            return (V, c) + cycle(wn, units, 2.2, d)
        n = 0
        bad = set()
        cons = []
        for path in symx.explore(harness, max_paths=50, timeout_s=1200):
            n += 1
            cons = path.constraints()
            if path.exc is not None:
                if 'raised' not in bad:
                    bad.add('raised')
                    rep.counterexample('inp/%s/raised' % tag, dict(example=fname, units=units, why='%s: %s' % (type(path.exc).__name__, _TOKEN.sub('<num>', str(path.exc))[:300])), 'example')
                continue
            V, c, d0, d1, d2, t1, t2 = path.value
            n0, n1, n2 = normalise(d0), normalise(d1), normalise(d2)
            wit = lambda mdl, V=V: V.witness(mdl, example=fname, units=units)
            mism, claims = [], []
            compare_tol(n0, n1, '', mism, claims)
            if mism:
                if 'equivalent' not in bad:
                    bad.add('equivalent')
                    m_ = symx.satisfiable(cons)
                    rep.counterexample('inp/%s/equivalent' % tag, dict(V.witness(m_.model, example=fname, units=units), why='; '.join(mism[:4])), 'example')
            else:
                for k in range(0, len(claims), 100):
                    if 'equivalent' in bad:
                        break
                    if not rep.prove('inp/%s/equivalent/%d/path%d' % (tag, k // 100, n), cons, z3.And(*[cl for _, cl in claims[k:k + 100]]), wit, 'example',
                                     sample='%d numeric attributes within the precision of the file' % len(claims[k:k + 100])):
                        bad.add('equivalent')
            tokvals = c.__dict__.get('tokvals', {})
            readback = lambda hit: tokvals[id(hit)][1] if id(hit) in tokvals else hit[0]
            mism, claims = text_claims(t1, t2, readback)
            if mism:
                if 'text' not in bad:
                    bad.add('text')
                    m_ = symx.satisfiable(cons)
                    rep.counterexample('inp/%s/second-file' % tag, dict(V.witness(m_.model, example=fname, units=units), why='; '.join(mism[:4])), 'example')
            else:
                for k in range(0, len(claims), 100):
                    if 'text' in bad:
                        break
                    if not rep.prove('inp/%s/second-file/%d/path%d' % (tag, k // 100, n), cons, z3.And(*[cl for _, cl in claims[k:k + 100]]), wit, 'example',
                                     sample='%d numbers of the second file equal what was read from the first' % len(claims[k:k + 100])):
                        bad.add('text')
            mism, claims = compare(n1, n2)
            if mism:
                if 'second-model' not in bad:
                    bad.add('second-model')
                    m_ = symx.satisfiable(cons)
                    rep.counterexample('inp/%s/second-model' % tag, dict(V.witness(m_.model, example=fname, units=units), why='; '.join(mism[:4])), 'example')
            else:
                hard = [cl for _, cl in claims if not z3.is_true(z3.simplify(cl))]
                for k in range(0, max(len(hard), 1), 50):
                    if 'second-model' in bad:
                        break
                    if not rep.prove('inp/%s/second-model/%d/path%d' % (tag, k // 50, n), cons, z3.And(*hard[k:k + 50]) if hard else z3.BoolVal(True), wit, 'example',
                                     sample='%d numeric attributes unchanged by the second cycle' % len(claims)):
                        bad.add('second-model')
        rep.extra['paths_' + tag] = n
        if n == 0:
            rep.harness_errors.append('inp/%s: no feasible path (vacuous harness)' % tag)
        if not bad and n:
            rep.reach('inp/' + tag, cons)
    finally:
        for u in undo:
            u()
        shutil.rmtree(d, ignore_errors=True)


def replay_example(i):
    fname, units = i['example'], i['units']
    vals = {k: v for k, v in i.items() if k not in ('example', 'units', 'why')}
    d = tempfile.mkdtemp(prefix='vf12r.', dir='/var/tmp')
    try:
        wn = NIO.read_inpfile(fname)
        if vals:
            symbolise(ConcVars(_Lenient(vals)), wn)
        try:
            d0, d1, d2, t1, t2 = cycle(wn, units, 2.2, d)
        except Exception as ex:
            return 'write/read raised %s: %s' % (type(ex).__name__, str(ex)[:300])
        n0, n1, n2 = normalise(d0), normalise(d1), normalise(d2)
        mism = []
        compare_tol(n0, n1, '', mism, [])
        if mism:
            return 'the model read back differs: ' + '; '.join(mism[:4])
        if sections(t1) != sections(t2):
            return 'the second file differs from the first'
        mism, _ = compare(n1, n2, tol=(1e-13, 1e-15))
        if mism:
            return 'a second write/read cycle changes the model: ' + '; '.join(mism[:4])
        return None
    finally:
        shutil.rmtree(d, ignore_errors=True)


class _Lenient(dict):
    """witness values by name; a name the witness does not mention keeps the middle of its band"""
    def __missing__(self, k):
        raise KeyError(k)


def replay_inp(i):
    """plain floats, the real writer and reader"""
    var, units, version = i['var'], i['units'], i['version']
    set_reaction_tolerance(units, var.get('orders', (1, 1, 1)))
    vals = {k: v for k, v in i.items() if k not in ('var', 'units', 'version', 'what', 'why')}
    d = tempfile.mkdtemp(prefix='vf12r.', dir='/var/tmp')
    try:
        if vals:
            wn, _ = kitchen.build(ConcVars(vals), var)
        else:
            wn, _ = kitchen.build(None, dict(var, sym=False))
        try:
            d0, d1, d2, t1, t2 = cycle(wn, units, version, d)
        except Exception as ex:
            return 'write/read raised %s: %s' % (type(ex).__name__, str(ex)[:300])
        n0, n1, n2 = normalise(d0, version), normalise(d1, version), normalise(d2, version)
        if version < 2.2:
            f22 = os.path.join(d, 'v22.inp')
            NIO.write_inpfile(wn, f22, units=units, version=2.2)
            s20, s22 = sections(t1), sections(open(f22).read())
            for sec in s22:
                a22 = [l for l in s22[sec] if not (sec == '[OPTIONS]' and l.strip().upper().startswith(V22_OPTION_LINES))]
                a20 = s20.get(sec, [])
                if [_vnorm(sec, l) for l in a20] != [_vnorm(sec, l) for l in a22]:
                    dl = [(x.strip(), y.strip()) for x, y in zip(a20, a22) if _vnorm(sec, x) != _vnorm(sec, y)][:2]
                    return 'the 2.0 file differs from the 2.2 file beyond the 2.2-specific options in %s: %r' % (sec, dl or (len(a20), len(a22)))
        mism, _ = [], []
        compare_tol(n0, n1, '', mism, _)
        if mism:
            return 'the model read back differs: ' + '; '.join(mism[:4])
        s1, s2 = sections(t1), sections(t2)
        if s1 != s2:
            dl = [(sec, a, b) for sec in s1 for a, b in zip(s1[sec], s2.get(sec, [])) if a != b][:2]
            return 'the second file differs from the first: %r' % (dl or sorted(set(s1) ^ set(s2)) or [(sec, len(s1[sec]), len(s2[sec])) for sec in s1 if len(s1[sec]) != len(s2[sec])])
        mism, _ = compare(n1, n2, tol=(1e-13, 1e-15))
        if mism:
            return 'a second write/read cycle changes the model: ' + '; '.join(mism[:4])
        return None
    finally:
        shutil.rmtree(d, ignore_errors=True)


def run(rep, only=None):
    rep.explanation = ('The real write_inpfile / read_inpfile run twice in a row on the kitchen-sink model whose numeric attributes are z3 proxies (numbers travel through the real file as tokens '
                       'carrying value and format spec; reading yields a fresh value within half a unit of the last printed digit); structure is compared exactly and z3 decides, for all '
                       'attribute values, that every number comes back within the precision of the file format and that the second cycle changes nothing.')
    rep.encode(EIO.InpFile.write, EIO.InpFile.read, EIO.InpFile._write_junctions, EIO.InpFile._read_junctions, EIO.InpFile._write_tanks, EIO.InpFile._read_tanks,
               EIO.InpFile._write_pipes, EIO.InpFile._read_pipes, EIO.InpFile._write_pumps, EIO.InpFile._read_pumps, EIO.InpFile._write_valves, EIO.InpFile._read_valves,
               EIO.InpFile._write_curves, EIO.InpFile._read_curves, EIO.InpFile._write_patterns, EIO.InpFile._read_patterns, EIO.InpFile._write_status, EIO.InpFile._read_status,
               EIO.InpFile._write_controls, EIO.InpFile._read_controls, EIO.InpFile._write_rules, EIO.InpFile._read_rules, EIO.InpFile._write_demands, EIO.InpFile._read_demands,
               EIO.InpFile._write_energy, EIO.InpFile._read_energy, EIO.InpFile._write_options, EIO.InpFile._read_options, EIO.InpFile._write_reactions, EIO.InpFile._read_reactions,
               EIO.InpFile._write_sources, EIO.InpFile._read_sources, EIO.InpFile._write_quality, EIO.InpFile._read_quality, EIO.InpFile._write_mixing, EIO.InpFile._read_mixing,
               EIO.InpFile._write_emitters, EIO.InpFile._read_emitters, EIO.InpFile._write_times, EIO.InpFile._read_times, EIO.InpFile._write_vertices, EIO.InpFile._read_vertices,
               EIO.InpFile._write_coordinates, EIO.InpFile._read_coordinates, EIO.InpFile._write_tags, EIO.InpFile._read_tags, EIO._read_control_line, EIO._EpanetRule.parse_rules_lines,
               EIO._EpanetRule.generate_control, EU.to_si, EU.from_si, EU.HydParam._to_si, EU.HydParam._from_si, EU.QualParam._to_si, EU.QualParam._from_si, NIO.write_inpfile, NIO.read_inpfile)
    rep.stub('int/float/isinstance/np shims in wntr.epanet.io/util and wntr.network.io/elements/model/base/controls/options')
    rep.stub('str.format of a proxy -> all-digit token remembering value and format spec; float(token) -> fresh value within half a unit of the last digit the spec prints (relative for g/e, '
             'absolute for f); the same token always reads back the same value; a value that was read from a token is written with the same spec and read back unchanged')
    rep.templates.append('kitchen-sink model K: 6 junctions (3 demand categories on one, emitter, tag), 2 tanks (volume curve, overflow, 2COMP mixing), 2 reservoirs (head pattern), 6 pipes (CV, closed, vertices), '
                         '3 pumps (3-point and 1-point head curves, power, speed pattern, energy price/pattern/efficiency curve), 5 valves (PRV PSV FCV TCV PBV), 4 patterns, 4 curves, 2 sources, quality / reaction / '
                         'energy / hydraulic (PDA) / time options, 5 simple controls (time, clock time, tank level, junction pressure, setting), 2 rules (AND/OR/ELSE/PRIORITY, clock time)')
    rep.bound('one model structure; ~230 numeric attributes symbolic in physically plausible ranges; times concrete; 10 flow units x INP 2.2 and 2.0 (quick: 2.0 for two unit systems)')
    rep.assume('floats as reals; tolerance table TOL of vf/props/c12.py (SI units) is what "the precision of the file format" means')
    tasks = []
    for u in UNITS:
        tasks.append(('units-%s-2.2' % u, check_units, (u, 2.2, VARIANT)))
    for u in (UNITS if rep.tier == 'thorough' else ['GPM', 'LPS']):
        tasks.append(('units-%s-2.0' % u, check_units, (u, 2.0, VARIANT)))
    for ov in OTHER_VARIANTS:
        for u in (UNITS if rep.tier == 'thorough' else ['GPM', 'CMH']):
            tasks.append(('%s-%s' % (ov['name'], u), check_units, (u, 2.2, ov)))
    for tv in TIME_VARIANTS:
        for u in (UNITS if rep.tier == 'thorough' else ['GPM', 'CMH']):
            tasks.append(('%s-%s' % (tv['name'], u), check_units, (u, 2.2, tv)))
    if rep.tier == 'thorough':
        for f, us in (('Net3.inp', ['GPM', 'LPS', 'CMH']), ('Net1.inp', ['GPM', 'MLD']), ('Net2.inp', ['CFS'])):
            for u in us:
                tasks.append(('example-%s-%s' % (f, u), check_example, ('/repo/examples/networks/' + f, u)))
    run_parallel(rep, tasks)

"""C15  The compiled model evaluator returns true residuals and Jacobian.

Both halves of the evaluator are executed symbolically on every expression shape of a bounded grammar:

  Python half   the REAL operator overloading of wntr.sim.aml.expr builds the expression; the REAL aml.Model registers it
                (_register_constraint / _register_conditional_constraint: get_rpn, reverse_sd, reference counting)
  C++ half      aml.Evaluator is replaced by vf.cxxsym.CxxEvaluator, which INTERPRETS evaluator.cpp from clang's AST (set_structure,
                evaluate, evaluate_csr_jacobian, the _evaluate stack machine, get_x, load_var_values_from_x, add_* / remove_*)

with the values of all Vars and Params symbolic.  Value-dependent branches (sign, inequality, if_else, conditional constraints)
fork the path; on every feasible path z3 decides, for ALL values:

  residual      evaluate_residuals()[con.index]  ==  con.evaluate() (the real direct evaluation)  ==  the reference value of the
                shape (an independent 60-line evaluator of the shape tree)
  jacobian      evaluate_jacobian()[con.index, var.index]  ==  d(shape)/d(var) from an independent rule-table differentiator, for
                every variable of the model (0 where the constraint does not depend on it); not claimed where the derivative does
                not exist (abs/sign argument 0, exactly on an if/else or condition boundary)
  indices       Constraint.index / Var.index are permutations of 0..n-1 and get_x()[var.index] == var.value
  builds        building, registering, removing, set_structure and evaluating never raise, never touch a deleted C++ object, an
                uninitialised cell or an out-of-range index (MemoryFault of the interpreter)

Transcendentals and non-integer powers are uninterpreted functions shared by all three evaluations (congruence only).  A
counterexample is replayed on the real compiled evaluator REBUILT from the current .cpp with g++ (numeric comparison with the
reference shape and its analytic derivative).
"""
import math
import operator
import itertools

import numpy as np
import z3

import wntr.sim.aml.aml as AML
import wntr.sim.aml.expr as E

from .. import symx, cxxsym
from ..symx import Sym, SymB, real, rv
from ..report import guarded, run_parallel

LO, HI = -8, 8
BIN = {'add': operator.add, 'sub': operator.sub, 'mul': operator.mul, 'div': operator.truediv, 'pow': operator.pow}
UNF = ('abs', 'sign', 'exp', 'log', 'sin', 'cos', 'tan', 'asin', 'acos', 'atan')
X, Y, Z, P, Q = ('x',), ('y',), ('z',), ('p',), ('q',)
VARS = ('x', 'y', 'z')
PARS = ('p', 'q')


def C(v):
    return ('c', v)


# ---------------------------------------------------------------------------------------------------------------- shape trees
def build_expr(t, L, memo):
    """the real expression of a shape tree, through the real operator overloading (same tuple object = same Python object)"""
    k = id(t)
    if k in memo:
        return memo[k]
    op = t[0]
    if op in L:
        r = L[op]
    elif op == 'c':
        r = t[1]
    elif op in BIN:
        r = BIN[op](build_expr(t[1], L, memo), build_expr(t[2], L, memo))
    elif op == 'neg':
        r = -build_expr(t[1], L, memo)
    elif op in UNF:
        r = getattr(E, op)(build_expr(t[1], L, memo))
    elif op == 'ifelse':
        _, (_i, body, lb, ub), a, b = t
        r = E.if_else(E.inequality(build_expr(body, L, memo), lb, ub), build_expr(a, L, memo), build_expr(b, L, memo))
    elif op == 'cond':
        r = E.ConditionalExpression()
        for c, e in t[1]:
            ex = build_expr(e, L, memo)
            if c is None:
                r.add_final_expr(ex)
            else:
                r.add_condition(E.inequality(build_expr(c[1], L, memo), c[2], c[3]), ex)
    else:
        raise ValueError(op)
    memo[k] = r
    return r


def _isnum(v):
    return isinstance(v, (int, float)) and not isinstance(v, bool)


def _ite(c, a, b):
    if isinstance(c, bool):
        return a if c else b
    return Sym(z3.If(c, real(a), real(b)))


def _within(v, lb, ub):
    """z3 Bool (or Python bool) of lb <= v <= ub with None = unbounded"""
    if _isnum(v):
        return (lb is None or lb <= v) and (ub is None or v <= ub)
    cs = []
    if lb is not None:
        cs.append(real(v) >= rv(lb))
    if ub is not None:
        cs.append(real(v) <= rv(ub))
    return z3.And(*cs) if cs else True


class Ref:
    """independent reference semantics of a shape tree; collects domain-of-definition and smoothness conditions"""
    def __init__(self, env):
        self.env = env
        self.domain = []
        self.smooth = []
        self.memo = {}

    def val(self, t):
        k = id(t)
        if k in self.memo:
            return self.memo[k][1]
        op = t[0]
        if op in self.env:
            r = self.env[op]
        elif op == 'c':
            r = t[1]
        elif op in BIN:
            a, b = self.val(t[1]), self.val(t[2])
            if op == 'div' and not _isnum(b):
                self.domain.append(real(b) != 0)
            if op == 'pow' and _isnum(a) and a in (0, 1) and not _isnum(b):
                # the operator overloading folds 1 ** e to 1 and 0 ** e to 0
                if a == 0:
                    self.domain.append(real(b) > 0)
                self.memo[k] = (t, a)
                return a
            if op == 'pow':
                if not _isnum(b) or b != int(b):
                    if not _isnum(a):
                        self.domain.append(real(a) > 0)
                elif b < 0 and not _isnum(a):
                    self.domain.append(real(a) != 0)
            r = BIN[op](a, b)
        elif op == 'neg':
            r = -self.val(t[1])
        elif op == 'abs':
            a = self.val(t[1])
            r = abs(a) if not _isnum(a) else math.fabs(a)
        elif op == 'sign':
            a = self.val(t[1])
            r = (1 if a >= 0 else -1) if _isnum(a) else Sym(z3.If(real(a) >= 0, z3.RealVal(1), z3.RealVal(-1)))
        elif op in UNF:
            a = self.val(t[1])
            if not _isnum(a):
                if op == 'log':
                    self.domain.append(real(a) > 0)
                if op in ('asin', 'acos'):
                    self.domain.append(z3.And(real(a) > -1, real(a) < 1))
            r = symx.sym_math(op, a)
        elif op == 'ifelse':
            _, (_i, body, lb, ub), a, b = t
            r = _ite(_within(self.val(body), lb, ub), self.val(a), self.val(b))
        elif op == 'cond':
            r = None
            for c, e in reversed(t[1]):
                v = self.val(e)
                r = v if c is None else _ite(_within(self.val(c[1]), c[2], c[3]), v, r if r is not None else 0.0)
        else:
            raise ValueError(op)
        self.memo[k] = (t, r)       # keeps t alive: ids of temporary derivative trees must not be reused
        return r

    # -- derivative trees
    def diff(self, t, v):
        op = t[0]
        if op == v:
            return C(1)
        if op in self.env or op == 'c':
            return C(0)
        d = lambda s: self.diff(s, v)
        if op == 'add':
            return _add(d(t[1]), d(t[2]))
        if op == 'sub':
            return _sub(d(t[1]), d(t[2]))
        if op == 'mul':
            return _add(_mul(d(t[1]), t[2]), _mul(t[1], d(t[2])))
        if op == 'div':
            return _sub(_div(d(t[1]), t[2]), _div(_mul(t[1], d(t[2])), ('pow', t[2], C(2))))
        if op == 'pow' and t[1][0] == 'c' and t[1][1] in (0, 1):
            return C(0)                 # folded to a constant by the operator overloading
        if op == 'pow':
            a, b = t[1], t[2]
            out = _mul(_mul(b, ('pow', a, _sub(b, C(1)))), d(a))
            db = d(b)
            if db != C(0):
                out = _add(out, _mul(_mul(('pow', a, b), ('log', a)), db))
            return out
        if op == 'neg':
            return _neg(d(t[1]))
        if op == 'abs':
            self.smooth.append(('nz', t[1]))
            return _mul(('ifelse', ('ineq', t[1], 0, None), C(1), C(-1)), d(t[1]))
        if op == 'sign':
            self.smooth.append(('nz', t[1]))
            return C(0)
        a = t[1]
        if op == 'exp':
            return _mul(('exp', a), d(a))
        if op == 'log':
            return _div(d(a), a)
        if op == 'sin':
            return _mul(('cos', a), d(a))
        if op == 'cos':
            return _neg(_mul(('sin', a), d(a)))
        if op == 'tan':
            return _div(d(a), ('pow', ('cos', a), C(2)))
        if op == 'asin':
            return _div(d(a), ('pow', _sub(C(1), ('pow', a, C(2))), C(0.5)))
        if op == 'acos':
            return _neg(_div(d(a), ('pow', _sub(C(1), ('pow', a, C(2))), C(0.5))))
        if op == 'atan':
            return _div(d(a), _add(C(1), ('pow', a, C(2))))
        if op == 'ifelse':
            _, cnd, a, b = t
            self.smooth.append(('bd', cnd))
            return ('ifelse', cnd, d(a), d(b))
        if op == 'cond':
            for c, e in t[1]:
                if c is not None:
                    self.smooth.append(('bd', c))
            return ('cond', [(c, d(e)) for c, e in t[1]])
        raise ValueError(op)

    def smooth_conditions(self):
        out = []
        for kind, s in self.smooth:
            if kind == 'nz':
                a = self.val(s)
                if not _isnum(a):
                    out.append(real(a) != 0)
            else:
                _i, body, lb, ub = s
                a = self.val(body)
                if not _isnum(a):
                    for bnd in (lb, ub):
                        if bnd is not None:
                            out.append(real(a) != rv(bnd))
        return out


def _zero(t):
    return t[0] == 'c' and t[1] == 0


def _one(t):
    return t[0] == 'c' and t[1] == 1


def _add(a, b):
    return b if _zero(a) else a if _zero(b) else ('add', a, b)


def _sub(a, b):
    if _zero(b):
        return a
    if _zero(a):
        return _neg(b)
    if a[0] == 'c' and b[0] == 'c':
        return C(a[1] - b[1])
    return ('sub', a, b)


def _neg(a):
    return a if _zero(a) else (C(-a[1]) if a[0] == 'c' else ('neg', a))


def _mul(a, b):
    if _zero(a) or _zero(b):
        return C(0)
    return b if _one(a) else a if _one(b) else ('mul', a, b)


def _div(a, b):
    return C(0) if _zero(a) else ('div', a, b)


def tree_vars(t, acc=None):
    acc = set() if acc is None else acc
    if t[0] in VARS:
        acc.add(t[0])
    elif t[0] == 'cond':
        for c, e in t[1]:
            if c is not None:
                tree_vars(c[1], acc)
            tree_vars(e, acc)
    elif t[0] == 'ifelse':
        tree_vars(t[1][1], acc)
        tree_vars(t[2], acc)
        tree_vars(t[3], acc)
    elif t[0] != 'c':
        for s in t[1:]:
            if isinstance(s, tuple):
                tree_vars(s, acc)
    return acc


# ---------------------------------------------------------------------------------------------------------------- the catalogue
def catalogue(tier):
    """name -> list of constraint shape trees (a model); deterministic"""
    cat = {}
    consts = [C(2.0), C(0.5), C(-1.5), C(4), C(0), C(1)]
    leaves = [X, Y, P] + consts

    def single(name, t):
        cat[name] = [t]

    def lname(t):
        return t[0] if t[0] != 'c' else repr(t[1])
    # F1: every binary operator on every pair of leaf kinds (incl. a Python number on either side: reflected operators, 0/1 shortcuts)
    for op in BIN:
        for a in leaves:
            for b in leaves:
                if a[0] == 'c' and b[0] == 'c':
                    continue
                if op == 'div' and b[0] == 'c' and b[1] == 0:
                    continue        # ValueError('Divide by 0') by design
                if op == 'pow' and a[0] == 'c' and a[1] < 0:
                    continue        # negative base with a variable exponent: outside the domain of definition (its derivative takes log(base))
                single('bin/%s/%s/%s' % (op, lname(a), lname(b)), (op, a, b))
    # F2: unary operators on leaves and small expressions
    for op in ('neg',) + UNF:
        for nm, a in (('x', X), ('p', P), ('x*y', ('mul', X, Y)), ('x+p', ('add', X, P)), ('2-x', ('sub', C(2.0), X))):
            single('un/%s/%s' % (op, nm), (op, a))
    # F3: two nested binary operators, both associations, leaf patterns mixing vars / params / constants on either side
    pats = [(X, Y, P), (X, X, C(2.0)), (C(2.0), X, Y), (X, C(0.5), P), (P, X, C(4)), (Y, P, X)]
    if tier == 'thorough':
        pats += [(C(-1.5), X, X), (X, Y, X), (P, P, X), (X, C(1), Y), (C(0), X, Y), (X, Y, C(0))]
    neg = lambda t: t[0] == 'c' and t[1] < 0
    for o1 in BIN:
        for o2 in BIN:
            for k, (a, b, c) in enumerate(pats):
                if o1 == 'div' and c[0] == 'c' and c[1] == 0:
                    continue
                if (o2 == 'pow' and neg(a)) or (o1 == 'pow' and neg(a)) or (o2 == 'pow' and neg(b)):
                    continue        # negative constant base: outside the domain of definition
                single('nest/L/%s/%s/%d' % (o1, o2, k), (o1, (o2, a, b), c))
                if not (o2 == 'div' and c[0] == 'c' and c[1] == 0):
                    single('nest/R/%s/%s/%d' % (o1, o2, k), (o1, a, (o2, b, c)))
    # F3b (thorough): three binary operators, balanced tree
    if tier == 'thorough':
        for o1 in BIN:
            for o2 in BIN:
                for o3 in BIN:
                    for k, (a, b, c, d) in enumerate([(X, Y, P, X), (X, C(2.0), Y, P), (P, X, C(0.5), Y)]):
                        single('nest/B/%s/%s/%s/%d' % (o1, o2, o3, k), (o1, (o2, a, b), (o3, c, d)))
        for u in UNF:
            for o1 in BIN:
                for o2 in BIN:
                    single('nest/U/%s/%s/%s' % (u, o1, o2), (o1, (u, (o2, X, Y)), (u, P)) if False else (o1, (u, (o2, X, Y)), P))
    # F4: unary inside / outside binary, unary of unary
    for u in ('neg', 'abs', 'sign', 'exp', 'log', 'sin', 'atan', 'asin'):
        for o in BIN:
            single('mix/%s(%s)' % (u, o), (u, (o, X, Y)))
            single('mix/%s.%s.p' % (u, o), (o, (u, X), P))
            if not (o == 'pow' and u == 'sign'):       # 2 ** sign(x): exponent piecewise constant, the uninterpreted power cannot be folded on the reference side
                single('mix/2.%s.%s' % (o, u), (o, C(2.0), (u, X)))
        for u2 in ('neg', 'abs', 'exp', 'cos'):
            single('mix/%s(%s)' % (u, u2), (u, (u2, X)))
    # F5: shared sub-expressions (the same Python expression object used twice)
    for nm, e in (('x+y', ('add', X, Y)), ('x*p', ('mul', X, P)), ('exp', ('exp', X)), ('x**2', ('pow', X, C(2))), ('x/y', ('div', X, Y)), ('-x', ('neg', X))):
        single('share/e*e/' + nm, ('mul', e, e))
        single('share/e+e*3/' + nm, ('add', e, ('mul', e, C(3))))
        single('share/e*2/(e+p)/' + nm, ('div', ('mul', e, C(2.0)), ('add', e, P)))
        single('share/f(e)-e/' + nm, ('sub', ('sin', e), e))
        single('share/(e-y)*(e+y)/' + nm, ('mul', ('sub', e, Y), ('add', e, Y)))
        e2 = ('mul', e, Y)
        single('share/deep/' + nm, ('add', ('mul', e2, e), e2))
    # F6: inequality / if_else
    for nm, body in (('x', X), ('x-y', ('sub', X, Y)), ('x*p', ('mul', X, P))):
        for lb, ub in ((None, 1.0), (0, None), (-1.0, 2.0), (0.5, 0.5)):
            cnd = ('ineq', body, lb, ub)
            single('ifelse/%s/%r-%r/leaves' % (nm, lb, ub), ('ifelse', cnd, X, Y))
            single('ifelse/%s/%r-%r/exprs' % (nm, lb, ub), ('ifelse', cnd, ('mul', X, Y), ('sub', ('pow', X, C(2)), P)))
            single('ifelse/%s/%r-%r/const' % (nm, lb, ub), ('mul', ('ifelse', cnd, C(2.0), ('neg', Y)), X))
    single('ifelse/nested', ('ifelse', ('ineq', X, None, 0.0), ('neg', X), ('ifelse', ('ineq', X, None, 1.0), ('pow', X, C(2)), Y)))
    # F7: conditional (piecewise) constraints
    cat['cond/2'] = [('cond', [(('ineq', X, None, 1.0), ('mul', X, Y)), (None, ('add', X, P))])]
    cat['cond/3'] = [('cond', [(('ineq', X, None, -1.0), ('neg', X)), (('ineq', X, None, 2.0), ('add', ('pow', X, C(3)), Y)), (None, ('mul', C(0.5), Y))])]
    cat['cond/3/param-only-branch'] = [('cond', [(('ineq', ('sub', X, Y), None, 0.0), P), (('ineq', ('sub', X, Y), None, 1.0), ('mul', P, X)), (None, ('div', Y, P))])]
    cat['cond/hw-like'] = [('cond', [(('ineq', X, None, -0.5), ('sub', ('neg', ('mul', P, ('pow', ('neg', X), C(1.5)))), Y)),
                                     (('ineq', X, None, 0.5), ('sub', ('mul', ('mul', P, C(2.0)), X), Y)),
                                     (None, ('sub', ('mul', P, ('pow', X, C(1.5))), Y))])]
    # F8: several constraints in one model: shared leaves, shared sub-expression ACROSS constraints, plain + conditional rows mixed
    e = ('mul', X, C(2.0))
    cat['model/shared-across'] = [('add', e, Y), ('sub', e, Y)]
    cat['model/mixed'] = [('sub', ('mul', X, Y), P), cat['cond/2'][0], ('add', ('exp', Z), X)]
    cat['model/three'] = [('add', X, ('mul', C(2.0), Y)), ('sub', Y, ('mul', Q, Z)), ('mul', ('mul', X, Y), Z)]
    cat['model/leaf-constraint'] = [X, ('sub', Y, X)]
    return cat


def squared(shapes):
    """append filler constraints so that #constraints == #variables (evaluate_jacobian demands a square system)"""
    vs = set()
    for t in shapes:
        vs |= tree_vars(t)
    vs = sorted(vs)
    out = list(shapes)
    k = 0
    while len(out) < len(vs):
        a, b = vs[k % len(vs)], vs[(k + 1) % len(vs)]
        out.append(('sub', (a,), ('mul', C(2.0 + k), (b,))))
        k += 1
    return out, vs


# ---------------------------------------------------------------------------------------------------------------- the harness
class Csr:
    """stand-in for scipy.sparse.csr_matrix((data, indices, indptr), shape): same validation, duplicates summed"""
    def __init__(self, arg, shape=None):
        data, idx, ptr = [list(a) for a in arg]
        n, m = shape
        if len(ptr) != n + 1:
            raise ValueError('index pointer size (%d) should be (%d)' % (len(ptr), n + 1))
        if ptr[0] != 0:
            raise ValueError('index pointer should start with 0')
        if len(idx) != len(data):
            raise ValueError('indices and data should have the same size')
        if ptr[-1] > len(idx):
            raise ValueError('Last value of index pointer should be less than the size of index and data arrays')
        self.rows = []
        for r in range(n):
            if ptr[r] > ptr[r + 1]:
                raise ValueError('index pointer values must form a non-decreasing sequence')
            row = {}
            for k in range(ptr[r], ptr[r + 1]):
                c = idx[k]
                if not (0 <= c < m):
                    raise ValueError('column index exceeds matrix dimensions')
                row[c] = data[k] if c not in row else row[c] + data[k]
            self.rows.append(row)


class _Scipy:
    class sparse:
        csr_matrix = Csr


_PROG = {}


def program(policy):
    if policy not in _PROG:
        _PROG[policy] = cxxsym.Program(addr_policy=policy)
    return _PROG[policy]


class installed:
    """aml.Evaluator -> interpreted C++; proxies accepted as numbers by expr.py; math -> shared uninterpreted functions"""
    def __init__(self, policy):
        self.policy = policy

    def __enter__(self):
        cxxsym.CxxEvaluator.program = program(self.policy)
        self.saved = (AML.Evaluator, AML.scipy, E.math)
        AML.Evaluator = cxxsym.CxxEvaluator
        AML.scipy = _Scipy
        E.math = symx.MATH
        E.native_numeric_types.add(Sym)
        return self

    def __exit__(self, *a):
        AML.Evaluator, AML.scipy, E.math = self.saved
        E.native_numeric_types.discard(Sym)


def make_leaves(val):
    L = {}
    for v in VARS:
        L[v] = E.Var(val(v))
    for p in PARS:
        L[p] = E.Param(val(p))
    return L


def sym_values(c):
    vals = {}

    def val(n):
        if n not in vals:
            vals[n] = c.real(n)
            c.add_side(z3.And(vals[n].e >= LO, vals[n].e <= HI))
        return vals[n]
    return val, vals


GENERIC = [dict(x=1.25, y=-0.75, z=0.625, p=2.5, q=-1.75), dict(x=-1.25, y=0.75, z=1.625, p=0.375, q=2.25), dict(x=0.375, y=2.5, z=-0.875, p=-1.25, q=0.5),
           dict(x=2.75, y=1.375, z=-2.5, p=1.125, q=1.5), dict(x=-0.625, y=-2.25, z=3.5, p=3.25, q=-0.375)]


def _generic(g, name, k):
    base = name.split('_')[0]
    if base in g:
        return g[base] if '_' not in name else g[base] + 0.125 * (1 + k % 5)
    return [0.875, -1.375, 2.125, -0.625, 1.625, 3.375][k % 6]


def witness_of(cons, claim, vals, extra):
    """prefer a witness at generic, well-conditioned values (the solver's own choice is free to sit on a degenerate point)"""
    def w(model):
        names = sorted(vals)
        for g in GENERIC:
            gv = {n: _generic(g, n, k) for k, n in enumerate(names)}
            fix = [vals[n].e == rv(gv[n]) for n in names]
            v = symx.satisfiable(list(cons) + fix + [z3.Not(claim)], timeout_ms=5000)
            if v.status == 'sat':
                return dict(extra, values=gv)
        return dict(extra, values={n: symx.model_value(model, vals[n].e) for n in names})
    return w


def run_model(c, shapes, ops=None):
    """build the model through the real API; returns everything the claims need"""
    c.plain_pow = True
    val, vals = sym_values(c)
    L = make_leaves(val)
    memo = {}
    m = AML.Model()
    cons = []
    for k, t in enumerate(shapes):
        ex = build_expr(t, L, memo)
        if not isinstance(ex, (E.ExpressionBase, E.ConditionalExpression)):
            return None
        con = AML.Constraint(ex)
        setattr(m, 'c%d' % k, con)
        cons.append((con, t))
    for v in VARS + PARS:
        setattr(m, v, L[v])
    m.set_structure()
    res = m.evaluate_residuals()
    direct = [con.evaluate() for con, _ in cons]
    nv, nc = len(list(m.vars())), len(list(m.cons()))
    jac = m.evaluate_jacobian() if nv == nc else None
    xs = m.get_x()
    return dict(m=m, L=L, cons=cons, res=res, direct=direct, jac=jac, xs=xs, vals=vals, now={n: vals[n] for n in VARS + PARS}, nv=nv, nc=nc)


def claims_of(out):
    """[(name, preconditions, z3 claim)] for one explored path"""
    with symx.scratch() as sc:
        sc.plain_pow = True
        return _claims_of(out)


def _claims_of(out):
    L = out['L']
    env = dict(out['now'])
    ref = Ref(env)
    ref_res = Ref(dict(out['now_res'])) if 'now_res' in out else ref
    cl = []
    m = out['m']
    mvars = list(m.vars())
    name_of = {id(L[n]): n for n in VARS}
    idx_c = [con.index for con, _ in out['cons']]
    idx_v = [v.index for v in mvars]
    structural = []
    if sorted(idx_c) != list(range(len(idx_c))):
        structural.append('Constraint.index values %r are not a permutation of 0..%d' % (idx_c, len(idx_c) - 1))
    if sorted(idx_v) != list(range(len(idx_v))):
        structural.append('Var.index values %r are not a permutation of 0..%d' % (idx_v, len(idx_v) - 1))
    if len(out['res']) != len(idx_c):
        structural.append('residual vector has %d entries for %d constraints' % (len(out['res']), len(idx_c)))
    if len(out['xs']) != len(idx_v):
        structural.append('get_x() has %d entries for %d variables' % (len(out['xs']), len(idx_v)))
    if structural:
        return None, structural
    eqs_res, eqs_dir = [], []
    for (con, t), d in zip(out['cons'], out['direct']):
        rv_ = ref_res.val(t)
        eqs_res.append(real(out['res'][con.index]) == real(rv_))
        eqs_dir.append(real(d) == real(rv_))
    dom = list(ref_res.domain)
    cl.append(('residual', dom, z3.And(*eqs_res) if eqs_res else z3.BoolVal(True)))
    cl.append(('direct', dom, z3.And(*eqs_dir) if eqs_dir else z3.BoolVal(True)))
    cl.append(('get_x', [], z3.And(*[real(out['xs'][v.index]) == real(env[name_of[id(v)]]) for v in mvars]) if mvars else z3.BoolVal(True)))
    if out['jac'] is not None:
        eqs = []
        for con, t in out['cons']:
            row = out['jac'].rows[con.index]
            for v in mvars:
                dt = ref.diff(t, name_of[id(v)])
                eqs.append(real(row.get(v.index, 0.0)) == real(ref.val(dt)))
            extra_cols = set(row) - set(idx_v)
            if extra_cols:
                return None, ['jacobian row of constraint %d has entries in columns %r that belong to no variable' % (con.index, sorted(extra_cols))]
        cl.append(('jacobian', list(ref.domain) + ref.smooth_conditions(), z3.And(*eqs) if eqs else z3.BoolVal(True)))
    return cl, []


def check_shapes(rep, names, policy):
    cat = catalogue(rep.tier)
    with installed(policy):
        for name in names:
            shapes, _vs = squared(cat[name])
            tag = '%s/%s' % (policy, name)
            n = 0
            bad = set()
            cons = []
            skipped = False
            for path in symx.explore(lambda c: run_model(c, shapes), max_paths=400, timeout_s=120 if rep.tier == 'quick' else 600, catch=(Exception,)):
                n += 1
                cons = path.constraints()
                if path.exc is not None:
                    if isinstance(path.exc, cxxsym.CxxUnsupported):
                        raise symx.Inconclusive('the C++ interpreter does not cover this tree: %s' % path.exc)
                    if 'raised' not in bad:
                        bad.add('raised')
                        v = symx.satisfiable(cons)
                        vals = {k_: symx.model_value(v.model, z3.Real(k_)) for k_ in VARS + PARS} if v.status == 'sat' else {}
                        rep.counterexample('shape/%s/raised' % tag, dict(shape=name, policy=policy, values=vals, why='%s: %s' % (type(path.exc).__name__, path.exc)), 'shape')
                    continue
                out = path.value
                if out is None:
                    skipped = True
                    break
                cl, structural = claims_of(out)
                if structural:
                    if 'structure' not in bad:
                        bad.add('structure')
                        v = symx.satisfiable(cons)
                        vals = {k_: symx.model_value(v.model, z3.Real(k_)) for k_ in VARS + PARS} if v.status == 'sat' else {}
                        rep.counterexample('shape/%s/structure' % tag, dict(shape=name, policy=policy, values=vals, why=structural[0]), 'shape')
                    continue
                for cname, pre, claim in cl:
                    if cname in bad:
                        continue
                    full = list(cons) + list(pre)
                    if not rep.prove('shape/%s/%s/path%d' % (tag, cname, n), full, claim, witness_of(full, claim, out['vals'], dict(shape=name, policy=policy, what=cname)), 'shape',
                                     sample='%s of %d constraint(s), %d variable(s)' % (cname, out['nc'], out['nv'])):
                        bad.add(cname)
            if skipped:
                rep.extra['collapsed'] = rep.extra.get('collapsed', 0) + 1
                continue
            rep.paths += n
            rep.extra['shapes'] = rep.extra.get('shapes', 0) + 1
            if not bad and n:
                rep.reach('shape/' + tag, cons)


# ---------------------------------------------------------------------------------------------------------------- histories
POOL = {
    'a': ('add', ('mul', X, C(2.0)), Y),
    'b': ('sub', ('mul', X, Y), P),
    'c': ('cond', [(('ineq', X, None, 1.0), ('mul', X, Y)), (None, ('add', X, P))]),
    'd': ('add', ('exp', Y), ('mul', Q, X)),
    'e': ('sub', Z, ('pow', X, C(2))),
}
_SH = ('mul', X, C(3))            # one expression object used by two constraints of the pool
POOL['f'] = ('add', _SH, Y)
POOL['g'] = ('sub', _SH, ('mul', P, Y))


def play(spec, val, Model=None):
    """execute a history through the public API; val(name) supplies leaf values (proxies in the harness, floats in the replay).
       steps: ('add', k) ('del', k) ('dict+', k) ('dict-', k) ('deldict',) ('set', leaf) ('load',) ('structure',)
       'set' assigns a fresh value through Leaf.value, 'load' pushes fresh values through load_var_values_from_x"""
    L = make_leaves(val)
    memo, exprs, live = {}, {}, {}
    now = {n: L[n]._value for n in VARS + PARS}
    m = AML.Model()

    def expr_of(k):
        if k not in exprs:
            exprs[k] = build_expr(POOL[k], L, memo)
        return exprs[k]
    for n in VARS + PARS:
        setattr(m, n, L[n])
    for k in spec['init']:
        con = AML.Constraint(expr_of(k))
        setattr(m, 'c_' + k, con)
        live[k] = con
    nset = 0
    for st in spec['steps']:
        st = tuple(st)
        if st[0] == 'add':
            con = AML.Constraint(expr_of(st[1]))
            setattr(m, 'c_' + st[1], con)
            live[st[1]] = con
        elif st[0] == 'del':
            delattr(m, 'c_' + st[1])
            del live[st[1]]
        elif st[0] == 'dict+':
            if not hasattr(m, 'cd'):
                m.cd = AML.ConstraintDict()
            con = AML.Constraint(expr_of(st[1]))
            m.cd[st[1]] = con
            live[st[1]] = con
        elif st[0] == 'dict-':
            del m.cd[st[1]]
            del live[st[1]]
        elif st[0] == 'deldict':
            for k in list(m.cd):
                del live[k]
            del m.cd
        elif st[0] == 'set':
            nset += 1
            now[st[1]] = val('%s_%d' % (st[1], nset))
            L[st[1]].value = now[st[1]]
        elif st[0] == 'structure':
            m.set_structure()
        elif st[0] == 'load':
            m.set_structure()
            mv = list(m.vars())
            arr = np.empty(len(mv), dtype=object)
            for v in mv:
                nset += 1
                nme = [n for n in VARS if L[n] is v][0]
                now[nme] = val('load%s_%d' % (nme, nset))
                arr[v.index] = now[nme]
            if not any(isinstance(a, Sym) for a in arr):
                arr = arr.astype(float)
            m.load_var_values_from_x(arr)
        else:
            raise ValueError(st)
    cons = [(con, POOL[k]) for k, con in live.items()]
    return m, L, cons, now


def run_history(c, spec):
    c.plain_pow = True
    val, vals = sym_values(c)
    m, L, cons, now = play(spec, val)
    m.set_structure()
    nv, nc = len(list(m.vars())), len(list(m.cons()))
    if spec.get('jacobian_first') and nv == nc and nc:
        m.evaluate_jacobian()           # asking for the Jacobian before any residual evaluation must not disturb anything
    res = m.evaluate_residuals()
    direct = [con.evaluate() for con, _ in cons]
    now_res = dict(now)
    for k_, leaf in enumerate(spec.get('between', [])):
        # values assigned through the public API between the residual and the Jacobian evaluation
        now[leaf] = val('%s_b%d' % (leaf, k_))
        L[leaf].value = now[leaf]
    jac = m.evaluate_jacobian() if nv == nc and nc else None
    xs = m.get_x()
    # what the leaves report back through the public API, and the bookkeeping of the Python layer
    notes = []
    if set(id(cn) for cn in m.cons()) != set(id(cn) for cn, _ in cons):
        notes.append('Model.cons() lists %d constraints, %d are live' % (nc, len(cons)))
    want = {}
    for con, t in cons:
        for n in tree_vars(t):
            want[n] = want.get(n, 0) + 1
    for n in VARS:
        got = m._refcounts.get(L[n], 0)
        if got != want.get(n, 0):
            notes.append('reference count of %s is %d, %d live constraints use it' % (n, got, want.get(n, 0)))
        if (L[n] in m._var_cvar_map) != (want.get(n, 0) > 0):
            notes.append('variable %s is %sin _var_cvar_map but %d live constraints use it' % (n, '' if L[n] in m._var_cvar_map else 'not ', want.get(n, 0)))
    reads = [(n, L[n].value) for n in VARS + PARS]
    return dict(m=m, L=L, cons=cons, res=res, direct=direct, jac=jac, xs=xs, vals=vals, now=now, now_res=now_res, nv=nv, nc=nc, notes=notes, reads=reads)


def histories(tier):
    H = []
    H.append(dict(name='add-remove-add', init=['a', 'b'], steps=[('del', 'a'), ('add', 'a')]))
    H.append(dict(name='remove-first', init=['a', 'b', 'e'], steps=[('structure',), ('del', 'a'), ('del', 'e'), ('add', 'd')]))
    H.append(dict(name='conditional-in-out', init=['a', 'c'], steps=[('structure',), ('del', 'c'), ('add', 'b'), ('del', 'a'), ('add', 'c')]))
    H.append(dict(name='set-values', init=['a', 'b'], steps=[('structure',), ('set', 'x'), ('set', 'p'), ('del', 'b'), ('set', 'y'), ('add', 'b')]))
    H.append(dict(name='value-survives-removal', init=['a', 'b'], steps=[('set', 'x'), ('del', 'a'), ('del', 'b'), ('add', 'a'), ('add', 'b')]))
    H.append(dict(name='load-x', init=['a', 'c'], steps=[('load',)]))
    H.append(dict(name='load-x-after-removal', init=['a', 'b', 'e'], steps=[('structure',), ('del', 'e'), ('del', 'b'), ('add', 'd'), ('load',)]))
    H.append(dict(name='dict-add-remove', init=['a'], steps=[('dict+', 'b'), ('structure',), ('dict+', 'e'), ('dict-', 'b'), ('dict+', 'd')]))
    H.append(dict(name='dict-deleted-whole', init=['a', 'b'], steps=[('dict+', 'e'), ('dict+', 'd'), ('structure',), ('deldict',)]))
    H.append(dict(name='shared-expression-two-constraints', init=['f', 'g'], steps=[]))
    H.append(dict(name='shared-expression-remove-one', init=['f', 'g'], steps=[('structure',), ('del', 'f'), ('add', 'a')]))
    H.append(dict(name='three-vars', init=['a', 'b', 'e'], steps=[('set', 'z'), ('structure',)]))
    # the Jacobian is asked for at values that differ from those of the last residual evaluation (piecewise rows may switch branch)
    H.append(dict(name='values-change-before-jacobian', init=['a', 'c'], steps=[('structure',)], between=['x', 'y', 'p']))
    H.append(dict(name='param-change-before-jacobian', init=['c', 'd'], steps=[], between=['p', 'q']))
    H.append(dict(name='jacobian-before-residuals', init=['a', 'c'], steps=[('set', 'x')], jacobian_first=True))
    if tier == 'thorough':
        keys = ['a', 'b', 'c']
        for i, (k1, k2) in enumerate(itertools.permutations(keys, 2)):
            H.append(dict(name='perm%d' % i, init=keys, steps=[('structure',), ('del', k1), ('del', k2), ('structure',), ('add', k1), ('add', 'e'), ('del', 'e'), ('add', k2)]))
            H.append(dict(name='perm%d-dict' % i, init=[k1], steps=[('dict+', k2), ('dict+', 'e'), ('structure',), ('dict-', k2), ('del', k1), ('add', k1), ('dict+', k2), ('dict-', 'e')]))
    return H


def check_history(rep, spec, policy):
    tag = '%s/%s' % (policy, spec['name'])
    with installed(policy):
        n = 0
        bad = set()
        cons = []
        for path in symx.explore(lambda c: run_history(c, spec), max_paths=400, timeout_s=120 if rep.tier == 'quick' else 600, catch=(Exception,)):
            n += 1
            cons = path.constraints()
            if path.exc is not None:
                if isinstance(path.exc, cxxsym.CxxUnsupported):
                    raise symx.Inconclusive('the C++ interpreter does not cover this tree: %s' % path.exc)
                if 'raised' not in bad:
                    bad.add('raised')
                    rep.counterexample('history/%s/raised' % tag, dict(history=spec, policy=policy, values={}, why='%s: %s' % (type(path.exc).__name__, path.exc)), 'history')
                continue
            out = path.value
            if out['notes']:
                if 'bookkeeping' not in bad:
                    bad.add('bookkeeping')
                    rep.counterexample('history/%s/bookkeeping' % tag, dict(history=spec, policy=policy, values={}, why=out['notes'][0]), 'history')
                continue
            cl, structural = claims_of(out)
            if cl is not None:
                cl.append(('leaf-values', [], z3.And(*[real(v) == real(out['now'][nme]) for nme, v in out['reads']])))
            if structural:
                if 'structure' not in bad:
                    bad.add('structure')
                    rep.counterexample('history/%s/structure' % tag, dict(history=spec, policy=policy, values={}, why=structural[0]), 'history')
                continue
            for cname, pre, claim in cl:
                if cname in bad:
                    continue
                full = list(cons) + list(pre)
                if not rep.prove('history/%s/%s/path%d' % (tag, cname, n), full, claim, witness_of(full, claim, out['vals'], dict(history=spec, policy=policy, what=cname)), 'history',
                                 sample='%s after %d steps' % (cname, len(spec['steps']))):
                    bad.add(cname)
        rep.paths += n
        if not bad and n:
            rep.reach('history/' + tag, cons)


# ---------------------------------------------------------------------------------------------------------------- replay
def _num(t, env, memo=None):
    """float value of a shape tree (None outside the domain of definition)"""
    r = Ref(env)
    try:
        v = r.val(t)
    except (ValueError, ZeroDivisionError, OverflowError, TypeError):
        return None
    if isinstance(v, complex) or v is None:
        return None
    v = float(v)
    return v if math.isfinite(v) else None


def _compare(m, L, cons, values_now):
    """numeric comparison of the real compiled evaluator with the reference shape and its analytic derivative"""
    m.set_structure()
    res = m.evaluate_residuals()
    env = {n: float(L[n].value) for n in VARS + PARS}
    mvars = list(m.vars())
    name_of = {id(L[n]): n for n in VARS}
    idx_c = [con.index for con, _ in cons]
    if sorted(idx_c) != list(range(len(idx_c))):
        return 'Constraint.index values %r are not a permutation' % idx_c
    if len(res) != len(cons):
        return 'residual vector has %d entries for %d live constraints' % (len(res), len(cons))
    tol = lambda a, b: abs(a - b) <= 1e-7 * max(1.0, abs(a), abs(b))
    for con, t in cons:
        want = _num(t, env)
        if want is None:
            continue
        got = float(res[con.index])
        direct = float(con.evaluate())
        if not tol(got, want):
            return 'residual of constraint %s at %r is %.12g, the expression evaluates to %.12g' % (con.name, env, got, want)
        if not tol(direct, want):
            return 'Constraint.evaluate() of %s at %r is %.12g, the expression is worth %.12g' % (con.name, env, direct, want)
    xs = m.get_x()
    for v in mvars:
        if not tol(float(xs[v.index]), env[name_of[id(v)]]):
            return 'get_x()[%d] is %r, variable %s holds %r' % (v.index, xs[v.index], name_of[id(v)], env[name_of[id(v)]])
    if len(mvars) == len(cons) and cons:
        J = m.evaluate_jacobian().toarray()
        for con, t in cons:
            r = Ref(env)
            for v in mvars:
                dt = r.diff(t, name_of[id(v)])
                want = _num(dt, env)
                if want is None:
                    continue
                # skip points where the derivative does not exist
                ok = True
                for kind, s in r.smooth:
                    a = _num(s if kind == 'nz' else s[1], env)
                    if a is None or (kind == 'nz' and a == 0) or (kind == 'bd' and (a == s[2] or a == s[3])):
                        ok = False
                if not ok:
                    continue
                got = float(J[con.index, v.index])
                if not tol(got, want):
                    return 'jacobian entry d(%s)/d(%s) at %r is %.12g, the true partial derivative is %.12g' % (con.name, name_of[id(v)], env, got, want)
    return None


def _compare_staged(m, L, cons, spec, val, now):
    """residuals at the first values, then values change, then the Jacobian (no residual evaluation in between)"""
    m.set_structure()
    if spec.get('jacobian_first') and len(list(m.vars())) == len(cons):
        m.evaluate_jacobian()
    res = m.evaluate_residuals()
    env = {n: float(L[n].value) for n in VARS + PARS}
    tol = lambda a, b: abs(a - b) <= 1e-7 * max(1.0, abs(a), abs(b))
    for con, t in cons:
        want = _num(t, env)
        if want is not None and not tol(float(res[con.index]), want):
            return 'residual of %s at %r is %.12g, the expression evaluates to %.12g' % (con.name, env, float(res[con.index]), want)
    for k_, leaf in enumerate(spec.get('between', [])):
        now[leaf] = val('%s_b%d' % (leaf, k_))
        L[leaf].value = now[leaf]
    env = {n: float(L[n].value) for n in VARS + PARS}
    mvars = list(m.vars())
    if len(mvars) != len(cons):
        return None
    J = m.evaluate_jacobian().toarray()
    name_of = {id(L[n]): n for n in VARS}
    for con, t in cons:
        r = Ref(env)
        for v in mvars:
            dt = r.diff(t, name_of[id(v)])
            want = _num(dt, env)
            if want is None:
                continue
            if any((_num(s_ if kind == 'nz' else s_[1], env) in (None, 0.0) if kind == 'nz' else _num(s_[1], env) in (None, s_[2], s_[3])) for kind, s_ in r.smooth):
                continue
            if not tol(float(J[con.index, v.index]), want):
                return ('after the values changed to %r (no residual evaluation in between) the jacobian entry d(%s)/d(%s) is %.12g, the true partial derivative is %.12g'
                        % (env, con.name, name_of[id(v)], float(J[con.index, v.index]), want))
    return None


def replay_shape(i):
    cat = catalogue('thorough')
    if i['shape'] not in cat:
        cat = catalogue('quick')
    shapes, _ = squared(cat[i['shape']])
    values = {k: float(v) for k, v in (i.get('values') or {}).items()}
    from .. import cxxbuild
    mod = cxxbuild.build('aml')
    saved = AML.Evaluator
    AML.Evaluator = mod.Evaluator
    try:
        tries = [values] + [dict(g) for g in GENERIC]
        for vals in tries:
            try:
                L = make_leaves(lambda n: float(vals.get(n, 0.5)))
                memo = {}
                m = AML.Model()
                cons = []
                for k, t in enumerate(shapes):
                    con = AML.Constraint(build_expr(t, L, memo))
                    setattr(m, 'c%d' % k, con)
                    cons.append((con, t))
                msg = _compare(m, L, cons, vals)
            except Exception as ex:
                return 'building / evaluating the model raised %s: %s' % (type(ex).__name__, ex)
            if msg:
                return msg
            if i.get('what') and vals is values:
                break
        return None
    finally:
        AML.Evaluator = saved


def replay_history(i):
    spec = i['history']
    values = {k: float(v) for k, v in (i.get('values') or {}).items()}
    from .. import cxxbuild
    mod = cxxbuild.build('aml')
    saved = AML.Evaluator
    AML.Evaluator = mod.Evaluator
    try:
        cnt = [0]

        def val(n):
            cnt[0] += 1
            return values[n] if n in values else _generic(GENERIC[0], n, cnt[0])
        try:
            m, L, cons, now = play(spec, val)
            if spec.get('between') or spec.get('jacobian_first'):
                msg = _compare_staged(m, L, cons, spec, val, now)
                if msg:
                    return msg
            if set(id(cn) for cn in m.cons()) != set(id(cn) for cn, _ in cons):
                return 'Model.cons() lists %d constraints, %d are live' % (len(list(m.cons())), len(cons))
            for n in VARS + PARS:
                if abs(float(L[n].value) - float(now[n])) > 1e-12:
                    return 'leaf %s reads back %r, the last value given to it was %r' % (n, L[n].value, now[n])
            return _compare(m, L, cons, values)
        except Exception as ex:
            return 'building / evaluating the model raised %s: %s' % (type(ex).__name__, ex)
    finally:
        AML.Evaluator = saved


# ---------------------------------------------------------------------------------------------------------------- driver
def _chunks(lst, k):
    return [lst[i::k] for i in range(k)]


def selfcheck(rep):
    """Serval-style validation of the interpreter: the interpreted C++ and the compiled extension must agree numerically on a model
    with every constraint kind (disagreement = the harness is wrong, not the code)"""
    from .. import cxxbuild
    mod = cxxbuild.build('aml')
    cat = catalogue('quick')
    shapes, _ = squared(cat['model/mixed'] + [cat['cond/hw-like'][0]])
    outs = []
    for Ev, inst in ((mod.Evaluator, False), (cxxsym.CxxEvaluator, True)):
        cxxsym.CxxEvaluator.program = program('up')
        saved = AML.Evaluator
        AML.Evaluator = Ev
        try:
            L = make_leaves(lambda n: GENERIC[0][n])
            memo = {}
            m = AML.Model()
            cons = []
            for k, t in enumerate(shapes):
                con = AML.Constraint(build_expr(t, L, memo))
                setattr(m, 'c%d' % k, con)
                cons.append(con)
            m.set_structure()
            r = m.evaluate_residuals()
            e = m._evaluator
            vals, cols, ptr = e.evaluate_csr_jacobian(e.nnz, e.nnz, len(cons) + 1)
            mv = list(m.vars())
            rows = {}
            inv = {v.index: nme for nme in VARS for v in mv if L[nme] is v}
            for con in cons:
                i = con.index
                rows[con.name] = (float(r[i]), sorted((inv[int(cols[k])], float(vals[k])) for k in range(int(ptr[i]), int(ptr[i + 1]))))
            outs.append(rows)
        finally:
            AML.Evaluator = saved
    a, b = outs
    for k in a:
        ra, ja = a[k]
        rb, jb = b[k]
        if abs(ra - rb) > 1e-9 * max(1, abs(ra)) or len(ja) != len(jb) or any(x[0] != y[0] or abs(x[1] - y[1]) > 1e-9 * max(1, abs(x[1])) for x, y in zip(ja, jb)):
            raise symx.HarnessError('interpreted C++ and compiled evaluator disagree on %s: %r vs %r' % (k, a[k], b[k]))
    rep.extra['selfcheck'] = 'interpreted evaluator.cpp == compiled evaluator on %d constraints (residuals and CSR Jacobian)' % len(a)


def run(rep, only=None):
    rep.explanation = ('Expression shapes of a bounded grammar are built through the real operator overloading and registered in the real aml.Model; the C++ evaluator is '
                       'INTERPRETED from clang\'s AST of the current evaluator.cpp on symbolic doubles; z3 decides, for all variable / parameter values on every feasible '
                       'path, residual == direct evaluation == reference and Jacobian == reference derivative, with indices as reported.')
    rep.encode(E.ExpressionBase.__add__, E.ExpressionBase.__sub__, E.ExpressionBase.__mul__, E.ExpressionBase.__truediv__, E.ExpressionBase.__pow__, E.ExpressionBase.__radd__,
               E.ExpressionBase.__rsub__, E.ExpressionBase.__rmul__, E.ExpressionBase.__rtruediv__, E.ExpressionBase.__rpow__, E.ExpressionBase.__neg__, E.Leaf._binary_operation_helper,
               E.Float._binary_operation_helper, E.expression.__init__, E.expression._binary_operation_helper, E.expression._unary_operation_helper, E.expression.evaluate,
               E.expression.reverse_sd, E.expression.get_rpn, E.expression._collect_leaves, E.BinaryOperator.get_rpn, E.BinaryOperator.diff_up_symbolic, E.UnaryOperator.get_rpn,
               E.IfElseOperator.get_rpn, E.IfElseOperator.diff_down, E.InequalityOperator.get_rpn, E.if_else, E.inequality, E.ConditionalExpression.evaluate,
               AML.Model.__setattr__, AML.Model.__delattr__, AML.Model._register_constraint, AML.Model._register_conditional_constraint, AML.Model._remove_constraint,
               AML.Model._remove_conditional_constraint, AML.Model._increment_var, AML.Model._increment_float, AML.Model._decrement_var, AML.Model.evaluate_residuals,
               AML.Model.evaluate_jacobian, AML.ConstraintDict.__setitem__, AML.ConstraintDict.__delitem__)
    for cls in (E.AddOperator, E.SubtractOperator, E.MultiplyOperator, E.DivideOperator, E.PowerOperator, E.NegationOperator, E.AbsOperator, E.SignOperator, E.ExpOperator,
                E.LogOperator, E.SinOperator, E.CosOperator, E.TanOperator, E.AsinOperator, E.AcosOperator, E.AtanOperator):
        rep.encode(cls.diff_down)
    prog = program('up')
    rep.encode_file(prog.src)
    rep.encode_file(prog.hpp)
    rep.extra['cxx_functions_interpreted'] = sorted(prog.encoded)
    rep.stub('std::vector / std::set / std::map / iterators / new / delete modelled by vf.cxxsym (value-semantic copies, address-ordered iteration, freed / uninitialised / out-of-range access raises)')
    rep.stub('SWIG wrapper evaluator_wrap.cpp modelled by vf.cxxsym.CxxEvaluator (ARGOUT / IN arrays, StructureException -> RuntimeError); the generated wrapper itself only runs in the replay')
    rep.stub('scipy.sparse.csr_matrix replaced by a 30-line CSR reader with the same validation (duplicates summed)')
    rep.stub('exp log sin cos tan asin acos atan, x**c for non-integer c and x**y: uninterpreted functions shared by the C++ side, expr.evaluate and the reference (congruence only); '
             'integer powers are expanded to products')
    rep.assume('floats as reals; constants in the shapes are dyadic rationals so that Python-side constant folding is exact')
    rep.assume('object addresses (iteration order of std::set<T*> / std::map<Var*,..>) follow the allocation policy: ascending, descending' + (', scrambled' if rep.tier == 'thorough' else ''))
    rep.bound('values of x, y, z, p, q: any real in [%d, %d]; Jacobian claims exclude points where the derivative does not exist' % (LO, HI))
    cat = catalogue(rep.tier)
    rep.bound('%d model shapes: all 5 binary operators x all leaf-kind pairs (Var, Param, int / float constants incl. 0 and 1 on either side); 11 unary operators on leaves and small '
              'expressions; two nested binary operators in both associations; unary/binary mixes; shared sub-expressions (same object twice, also across constraints); inequality / '
              'if_else with one- and two-sided bounds; conditional constraints with 2-3 branches; models with up to 3 constraints and 3 variables' % len(cat))
    hs = histories(rep.tier)
    rep.bound('%d add / remove / ConstraintDict / set value / load_var_values_from_x / set_structure histories of up to 5 steps over a pool of 7 constraints' % len(hs))
    guarded(rep, 'selfcheck', selfcheck, rep)
    if rep.harness_errors:
        return
    policies = ['up', 'down'] + (['scramble'] if rep.tier == 'thorough' else [])
    names = sorted(cat)
    tasks = []
    for pol in policies:
        if pol != 'up' and rep.tier == 'quick':
            sub = [n for n in names if n.startswith(('model/', 'cond/', 'share/', 'ifelse/x/')) or n.startswith('bin/') and '/x/y' in n]
        else:
            sub = names
        for k, ch in enumerate(_chunks(sub, 14 if pol == 'up' else 6)):
            if ch:
                tasks.append(('shapes-%s-%d' % (pol, k), check_shapes, (ch, pol)))
        for spec in hs:
            tasks.append(('history-%s-%s' % (pol, spec['name']), check_history, (spec, pol)))
    run_parallel(rep, tasks)

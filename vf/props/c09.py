"""C09  Junctions cut off from all sources are zeroed; connected ones never are.

The REAL run_sim (vf.ctrlplane; Newton solve stubbed) on small graphs with parallel links, a dead-end branch, a bridge and
two sources.  The initial status of every link is a symbolic bit and up to two time controls with symbolic Int instants
open / close links during the run; the explorer enumerates every feasible (status pattern x firing order) path, the
C++ reachability search is REBUILT from /repo's current network_isolation.cpp and executed on each path.  On every
solve of every path:
   flags      junction._is_isolated  <=>  no path of non-closed links to a tank or reservoir   (independent BFS oracle)
              link._is_isolated      <=>  it touches an isolated junction
   results    isolated junction: reported demand = pressure = head = 0, its links report zero flow;
              connected junction: reported demand is the requested demand, never zeroed (also after reconnection)
   model      an isolated junction has no balance row, its links have the row 'flow = 0' (C01 / C02 forms)
The solver's share: feasibility of each ordering of the symbolic control instants and the certificate that the path tree is
exhausted; the graph search itself is executed, not encoded (no C++ symbolic executor on the image).
"""
import itertools
import z3

import wntr
import wntr.sim.core as core
from wntr.network.base import LinkStatus
from wntr.network.controls import Control, ControlAction, SimTimeCondition, Comparison

from .. import symx, ctrlplane, cxxbuild
from ..symx import Sym, real
from ..harness import SymVars, ConcVars
from ..report import guarded, run_parallel


def G1():
    """reservoir + tank, parallel pipes of opposite orientation, a parallel valve, bridge, dead-end branch"""
    wn = wntr.network.WaterNetworkModel()
    wn.add_reservoir('R', base_head=60.0)
    wn.add_tank('T', elevation=40.0, init_level=3.0, min_level=0.0, max_level=50.0, diameter=30.0)
    for n in ('J1', 'J2', 'J3', 'J4'):
        wn.add_junction(n, base_demand=0.01, elevation=1.0)
    wn.add_pipe('P1', 'R', 'J1')
    wn.add_pipe('PA', 'J1', 'J2')
    wn.add_pipe('PB', 'J2', 'J1')            # parallel to PA, opposite orientation
    wn.add_pipe('P3', 'J2', 'J3')            # bridge
    wn.add_valve('VT', 'J3', 'J2', 0.3, 'TCV', 0.0, 10.0)   # parallel to the bridge, different link type
    wn.add_pipe('P4', 'J3', 'J4')            # dead end
    wn.add_pipe('P5', 'T', 'J3')
    return wn


def G2():
    """single source, triple parallel links, two dead ends in series"""
    wn = wntr.network.WaterNetworkModel()
    wn.add_reservoir('R', base_head=60.0)
    for n in ('J1', 'J2', 'J3', 'J4'):
        wn.add_junction(n, base_demand=0.01, elevation=1.0)
    wn.add_pipe('P1', 'J1', 'R')             # reversed into the source
    wn.add_pipe('PA', 'J1', 'J2')
    wn.add_pipe('PB', 'J1', 'J2')
    wn.add_pipe('PC', 'J2', 'J1')
    wn.add_pipe('P3', 'J2', 'J3')
    wn.add_pipe('P4', 'J4', 'J3')
    return wn


def G3():
    """EPANET-style numeric ids: a junction and a pipe may carry the same name ('7').  Junction 7 hangs on a closed pipe; pipe 7 is
    the interior pipe of another district (junctions 3, 4) that is cut off and reconnected through pipe 12"""
    wn = wntr.network.WaterNetworkModel()
    wn.add_reservoir('1', base_head=60.0)
    for n in ('2', '3', '4', '7'):
        wn.add_junction(n, base_demand=0.01, elevation=1.0)
    wn.add_pipe('10', '1', '2')
    wn.add_pipe('11', '2', '7')
    wn.add_pipe('12', '2', '3')
    wn.add_pipe('7', '3', '4')
    return wn


def G4():
    """two single-junction dead ends of the same size behind their own pipes (one can be reconnected while the other is cut off)"""
    wn = wntr.network.WaterNetworkModel()
    wn.add_reservoir('R', base_head=60.0)
    for n in ('J1', 'JA', 'JB'):
        wn.add_junction(n, base_demand=0.01, elevation=1.0)
    wn.add_pipe('P1', 'R', 'J1')
    wn.add_pipe('PA', 'J1', 'JA')
    wn.add_pipe('PB', 'JB', 'J1')
    return wn


GRAPHS = {'G1': G1, 'G2': G2, 'G3': G3, 'G4': G4}


def reachable(wn):
    """independent oracle: junctions with a path of non-closed links to a tank or reservoir"""
    adj = {}
    for ln, l in wn.links():
        if l.status != LinkStatus.Closed:
            adj.setdefault(l.start_node_name, set()).add(l.end_node_name)
            adj.setdefault(l.end_node_name, set()).add(l.start_node_name)
    seen = set(wn.tank_name_list + wn.reservoir_name_list)
    todo = list(seen)
    while todo:
        n = todo.pop()
        for m in adj.get(n, ()):
            if m not in seen:
                seen.add(m)
                todo.append(m)
    return seen


def build(V, cfg):
    wn = GRAPHS[cfg['graph']]()
    if cfg.get('pdd'):
        wn.options.hydraulic.demand_model = 'PDD'
    t = wn.options.time
    t.hydraulic_timestep = t.rule_timestep = cfg['H']
    t.report_timestep = 'ALL'
    t.duration = cfg['dur']
    for ln in cfg['sym_links']:
        closed = V.choice('closed_' + ln, [False, True])
        if closed:
            l = wn.get_link(ln)
            l.initial_status = LinkStatus.Closed
            l._user_status = LinkStatus.Closed
    for ln in cfg.get('closed', []):
        l = wn.get_link(ln)
        l.initial_status = LinkStatus.Closed
        l._user_status = LinkStatus.Closed
    for k, (ln, val) in enumerate(cfg['controls']):
        cnd = SimTimeCondition(wn, Comparison.eq, 0)
        cnd._threshold = V.int('t%d' % k, 0, cfg['dur'])
        wn.add_control('c%d' % k, Control(cnd, ControlAction(wn.get_link(ln), 'status', LinkStatus(val))))
    return wn


def make_policy(log):
    base = ctrlplane.table_policy(lambda pl, wn, ln: 0.004, lambda pl, wn, nn: 25.0)

    def policy(plane, wn, m):
        base(plane, wn, m)
        ok = reachable(wn)
        entry = {'time': wn.sim_time, 'bad': []}
        for jn, j in wn.junctions():
            if bool(j._is_isolated) != (jn not in ok):
                entry['bad'].append('junction %s: _is_isolated=%s but %s' % (jn, j._is_isolated, 'reachable' if jn in ok else 'unreachable'))
            d = m.mass_balance if hasattr(m, 'mass_balance') else m.pdd_mass_balance
            if (jn in d) == (jn not in ok):
                entry['bad'].append('junction %s: balance row %s although %s' % (jn, 'present' if jn in d else 'absent', 'unreachable' if jn not in ok else 'reachable'))
        for ln, l in wn.links():
            want = (l.start_node_name not in ok) or (l.end_node_name not in ok)
            if bool(l._is_isolated) != want:
                entry['bad'].append('link %s: _is_isolated=%s, expected %s' % (ln, l._is_isolated, want))
        entry['statuses'] = {ln: int(l.status) for ln, l in wn.links()}
        entry['unreachable'] = sorted(set(wn.junction_name_list) - ok)
        log.append(entry)
    return policy


CFGS_QUICK = [
    dict(name='G1-static', graph='G1', H=3600, dur=0, sym_links=['P1', 'PA', 'PB', 'P3', 'VT', 'P4', 'P5'], controls=[]),
    dict(name='G1-reconnect', graph='G1', H=3600, dur=2 * 3600, sym_links=['PA', 'PB', 'VT'], closed=['P5'], controls=[('P3', 0), ('P3', 1)]),
    dict(name='G1-parallel-toggle', graph='G1', H=3600, dur=3600, sym_links=['P3', 'P5', 'PB'], controls=[('PA', 0), ('PB', 1)]),
    dict(name='G2-static', graph='G2', H=3600, dur=0, sym_links=['P1', 'PA', 'PB', 'PC', 'P3', 'P4'], controls=[]),
    dict(name='G2-reopen-end-on-source-side', graph='G2', H=3600, dur=2 * 3600, sym_links=['PA', 'PC'], controls=[('P1', 0), ('P1', 1)]),
    dict(name='G2-reopen-dead-end', graph='G2', H=3600, dur=2 * 3600, sym_links=['PB', 'P3'], controls=[('P4', 0), ('P4', 1)]),
    dict(name='G1-tcv-in-cut-off-region', graph='G1', H=3600, dur=3600, sym_links=['PA', 'PB', 'P4'], closed=['P5'], controls=[('P1', 0), ('P1', 1)]),
    dict(name='G3-shared-ids', graph='G3', H=3600, dur=2 * 3600, sym_links=['11', '7'], controls=[('12', 0), ('12', 1)]),
    dict(name='G4-swap-equal-parts', graph='G4', H=3600, dur=2 * 3600, sym_links=[], closed=['PA'], controls=[('PA', 1), ('PB', 0)]),
    dict(name='G1-static-pdd', graph='G1', pdd=True, H=3600, dur=0, sym_links=['P1', 'PA', 'PB', 'P3', 'P5'], controls=[]),
    dict(name='G2-reopen-dead-end-pdd', graph='G2', pdd=True, H=3600, dur=2 * 3600, sym_links=['PB'], controls=[('P4', 0), ('P4', 1)]),
    dict(name='G2-toggle', graph='G2', H=1800, dur=3600, sym_links=['PA', 'PC', 'P3'], controls=[('PB', 0), ('PB', 1)]),
]
CFGS_THOROUGH = CFGS_QUICK + [
    dict(name='G1-two-cuts', graph='G1', H=3600, dur=2 * 3600, sym_links=['PA', 'PB', 'VT', 'P4', 'P5'], controls=[('P1', 0), ('P3', 0)]),
    dict(name='G2-open-close', graph='G2', H=3600, dur=2 * 3600, sym_links=['PA', 'PB', 'PC', 'P4'], controls=[('P3', 0), ('P1', 0)]),
]


def check_cfg(rep, cfg):
    tag = cfg['name']
    iso = cxxbuild.build('network_isolation')
    saved = core.check_for_isolated_junctions
    core.check_for_isolated_junctions = iso.check_for_isolated_junctions
    log = []
    plane_stale = []
    plane = ctrlplane.Plane(make_policy(log))
    plane.audit = True          # at every solve the incrementally updated model must equal a fresh build for the current state
    try:
        with ctrlplane.installed(plane):
            def harness(c):
                V = SymVars(c)
                del log[:]
                wn = build(V, cfg)
                res = plane.run(wn)
                del plane_stale[:]
                plane_stale.extend(plane.stale)
                return V, wn, res, list(log)
            n = 0
            bad_seen = False
            for path in symx.explore(harness, max_paths=20000, timeout_s=400 if rep.tier == 'quick' else 2400):
                n += 1
                cons = path.constraints()
                if path.exc is not None:
                    m_ = symx.satisfiable(cons)
                    rep.counterexample('iso/%s/raised' % tag, dict(_inputs(m_.model, path, cfg), cfg=cfg, why='%s: %s' % (type(path.exc).__name__, path.exc)), 'iso')
                    bad_seen = True
                    break
                V, wn, res, lg = path.value
                problems = list(plane_stale)
                for e in lg:
                    problems += e['bad']
                # results: zeros exactly for the unreachable junctions at each record
                times = res.time
                # map record index -> log entry of the LAST solve at that time
                for k, t in enumerate(times):
                    ent = [e for e in lg if _same(e['time'], t)]
                    if not ent:
                        continue
                    un = set(ent[-1]['unreachable'])
                    for jn in wn.junction_name_list:
                        dem = ctrlplane.series(res, 'node', 'demand', jn)[k]
                        pr = ctrlplane.series(res, 'node', 'pressure', jn)[k]
                        hd = ctrlplane.series(res, 'node', 'head', jn)[k]
                        if jn in un:
                            if not (dem == 0 and pr == 0 and hd == 0):
                                problems.append('record %d: cut-off junction %s reports demand=%r pressure=%r head=%r' % (k, jn, dem, pr, hd))
                        else:
                            if dem == 0 or hd == 0:
                                problems.append('record %d: connected junction %s is zeroed (demand=%r head=%r)' % (k, jn, dem, hd))
                    for ln, l in wn.links():
                        q = ctrlplane.series(res, 'link', 'flowrate', ln)[k]
                        if (l.start_node_name in un or l.end_node_name in un) and q != 0:
                            problems.append('record %d: link %s at a cut-off junction reports flow %r' % (k, ln, q))
                if problems and not bad_seen:
                    bad_seen = True
                    m_ = symx.satisfiable(cons)
                    rep.counterexample('iso/%s/mismatch' % tag, dict(_inputs(m_.model, path, cfg), cfg=cfg, why='; '.join(problems[:3])), 'iso')
                elif not problems:
                    rep.discharged('iso/%s/path%d' % (tag, n), sample={'choices': dict(path.choices), 'solves': len(lg), 'unreachable_per_solve': [e['unreachable'] for e in lg][:6]})
            rep.extra['iso_paths_' + tag] = n
            if not bad_seen:
                rep.reach('iso/' + tag, cons)
    finally:
        core.check_for_isolated_junctions = saved


def _same(a, b):
    if isinstance(a, Sym) or isinstance(b, Sym):
        return z3.is_true(z3.simplify(real(a) == real(b)))
    return a == b


def _inputs(model, path, cfg):
    out = {}
    for k in range(len(cfg['controls'])):
        out['t%d' % k] = symx.model_value(model, z3.Int('t%d' % k))
    for nm, v in path.choices:
        out['choice:' + nm] = v
    return out


def replay_iso(i):
    """real simulator + real Newton solve + the compiled extension as installed in /repo"""
    import warnings
    cfg = i['cfg']
    V = ConcVars(i)
    wn = build(V, cfg)
    # recompute the oracle at every reported time from the reported statuses
    with warnings.catch_warnings():
        warnings.simplefilter('ignore')
        try:
            res = wntr.sim.WNTRSimulator(wn).run_sim()
        except Exception as ex:
            return 'run_sim raised %s: %s' % (type(ex).__name__, ex)
    if res.error_code is not None:
        return 'simulation did not converge (error_code=%r): the rest of the network should still be solved' % (res.error_code,)
    for t in res.node['demand'].index:
        closed = {ln for ln in wn.link_name_list if int(res.link['status'][ln][t]) == 0}
        adj = {}
        for ln, l in wn.links():
            if ln not in closed:
                adj.setdefault(l.start_node_name, set()).add(l.end_node_name)
                adj.setdefault(l.end_node_name, set()).add(l.start_node_name)
        seen = set(wn.tank_name_list + wn.reservoir_name_list)
        todo = list(seen)
        while todo:
            n = todo.pop()
            for m in adj.get(n, ()):
                if m not in seen:
                    seen.add(m)
                    todo.append(m)
        for jn in wn.junction_name_list:
            dem, pr = res.node['demand'][jn][t], res.node['pressure'][jn][t]
            if jn not in seen and (abs(dem) > 1e-12 or abs(pr) > 1e-12):
                return 't=%d: junction %s is cut off (closed links %r) but reports demand=%r pressure=%r' % (t, jn, sorted(closed), dem, pr)
            if jn in seen and abs(dem) < 1e-12:
                return 't=%d: junction %s is connected (closed links %r) but reports zero demand' % (t, jn, sorted(closed))
        for ln, l in wn.links():
            if (l.start_node_name not in seen or l.end_node_name not in seen) and abs(res.link['flowrate'][ln][t]) > 1e-12:
                return 't=%d: link %s touches a cut-off junction but reports flow %r' % (t, ln, res.link['flowrate'][ln][t])
    return None


def run(rep, only=None):
    rep.explanation = ('The real run_sim (Newton solve stubbed) with symbolic initial link statuses (forked bits) and symbolic control instants; every feasible path is explored; on each the '
                       'real incremental graph bookkeeping and the C++ reachability search (rebuilt from the current source) run and their flags are compared with an independent BFS, '
                       'and the recorded results with the zero / non-zero pattern the flags imply. z3 decides path feasibility (orderings of the instants) and certifies exhaustion.')
    rep.encode(core.WNTRSimulator._initialize_internal_graph, core.WNTRSimulator._update_internal_graph, core.WNTRSimulator._get_isolated_junctions_and_links,
               core._get_csr_data_index, wntr.sim.hydraulics.update_model_for_isolated_junctions_and_links, wntr.sim.hydraulics.store_results_in_network, wntr.sim.hydraulics.save_results)
    rep.encode_file('/repo/wntr/sim/network_isolation/network_isolation.cpp')
    for s in ctrlplane.STUBS:
        rep.stub(s)
    rep.stub('wntr.sim.core.check_for_isolated_junctions -> the same function rebuilt with g++ from /repo/wntr/sim/network_isolation/network_isolation.cpp')
    rep.templates += ['G1: ' + G1.__doc__, 'G2: ' + G2.__doc__]
    rep.bound('graphs G1 (7 links) and G2 (6 links); every listed subset of links has a symbolic initial status bit (all 2^k patterns); <= 2 time controls with symbolic instants in [0, duration]; <= 3 hydraulic steps')
    rep.bound('the graph search is executed concretely on every path (statuses are concrete per path); it is not encoded for the solver')
    tasks = [('iso-' + cfg['name'], check_cfg, (cfg,)) for cfg in (CFGS_THOROUGH if rep.tier == 'thorough' else CFGS_QUICK)]
    run_parallel(rep, tasks)

"""C18  Valve segmentation is exactly the partition induced by the valve layer.

partition/*  (bounded exhaustive enumeration, the weakest fit of this technique: pandas / networkx containers cannot be made
             symbolic, so the solver only drives and certifies the enumeration)  For each graph of a listed family (parallel
             links, dead ends, a loop, an isolated-by-valves node) the valve layer is one symbolic bit per (link, end-node)
             pair plus a duplicated row; EVERY layer is run through the real valve_segments / valve_segment_attributes and
             compared with a union-find oracle:  two elements share a segment <=> they are joined without passing a valve;
             labels positive; segment sizes count members; num_surround = other valves on the two segments a valve separates,
             0 when both sides are one segment.
ratios/*     (solver-decided)  node demands and link lengths are z3 proxies in pandas object Series pushed through the real
             valve_segment_attributes: demand_increase / length_increase == (sum_a + sum_b) / max(sum_a, sum_b) - 1 over the two
             segments a valve separates, 0 when both sides are the same segment - for ALL non-negative demands / lengths.
"""
import warnings
import itertools
import z3
import numpy as np
import pandas as pd
import networkx as nx

import wntr
from wntr.metrics import topographic as TP

from .. import symx
from ..symx import Sym, real, rv
from ..harness import SymVars, ConcVars
from ..report import guarded, run_parallel

GRAPHS = {
    # name: list of (link, start, end)
    'chain-parallel': [('a', 'A', 'B'), ('b', 'B', 'C'), ('c', 'C', 'B'), ('d', 'C', 'D')],
    'loop-deadend': [('a', 'A', 'B'), ('b', 'B', 'C'), ('c', 'C', 'A'), ('d', 'C', 'D'), ('e', 'D', 'E')],
    # names that contain the internal 'N_' / 'L_' prefixes of valve_segments (and begin with them)
    'star': [('MILL_1', 'TOWN_1', 'N_A'), ('L_b', 'TOWN_1', 'B'), ('c', 'C', 'TOWN_1'), ('d', 'N_A', 'B')],
    'two-components': [('a', 'A', 'B'), ('b', 'B', 'A'), ('c', 'C', 'D')],
}


def graph(name):
    G = nx.MultiDiGraph()
    for l, u, v in GRAPHS[name]:
        G.add_node(u)
        G.add_node(v)
    for l, u, v in GRAPHS[name]:
        G.add_edge(u, v, key=l)
    return G


def pairs(name):
    out = []
    for l, u, v in GRAPHS[name]:
        out.append((l, u))
        out.append((l, v))
    return out


def oracle(name, valves):
    """valves: list of (link, node).  returns (segment id per 'N_x' / 'L_x' element, via union-find)"""
    elems = ['N_' + n for n in sorted({u for _, u, _ in GRAPHS[name]} | {v for _, _, v in GRAPHS[name]})] + ['L_' + l for l, _, _ in GRAPHS[name]]
    parent = {e: e for e in elems}

    def find(x):
        while parent[x] != x:
            parent[x] = parent[parent[x]]
            x = parent[x]
        return x
    vs = set(valves)
    for l, u, v in GRAPHS[name]:
        for n in (u, v):
            if (l, n) not in vs:
                parent[find('L_' + l)] = find('N_' + n)
    return {e: find(e) for e in elems}


def check_layer(name, valves, dup):
    """run the real functions on one concrete layer; returns list of problems"""
    rows = list(valves) + ([valves[0]] if dup and valves else [])
    layer = pd.DataFrame({'link': [l for l, n in rows], 'node': [n for l, n in rows]}, columns=['link', 'node'])
    uniq = list(dict.fromkeys(rows))
    G = graph(name)
    with warnings.catch_warnings():
        warnings.simplefilter('ignore')
        try:
            ns, ls, sizes = TP.valve_segments(G, layer)
        except Exception as ex:
            return ['valve_segments raised %s: %s' % (type(ex).__name__, ex)]
    bad = []
    # the same layer on an UNDIRECTED graph object that was already used for another layer must give the same answer
    # (valve_segments must not edit its caller's graph)
    UG = graph(name).to_undirected()
    full = pd.DataFrame({'link': [l for l, n in pairs(name)], 'node': [n for l, n in pairs(name)]}, columns=['link', 'node'])
    with warnings.catch_warnings():
        warnings.simplefilter('ignore')
        try:
            TP.valve_segments(UG, full)
            ns2, ls2, _ = TP.valve_segments(UG, layer.copy())
            if sorted(ls2.index) != sorted(ls.index) or sorted(ns2.index) != sorted(ns.index):
                bad.append('second call on the same undirected graph labels %r / %r, first-use labels %r / %r' % (sorted(ns2.index), sorted(ls2.index), sorted(ns.index), sorted(ls.index)))
            elif any((ns2[a] == ns2[b]) != (ns[a] == ns[b]) for a in ns.index for b in ns.index) or any((ls2[a] == ls2[b]) != (ls[a] == ls[b]) for a in ls.index for b in ls.index):
                bad.append('second call on the same undirected graph gives a different partition')
        except Exception as ex:
            bad.append('second call on the same undirected graph raised %s: %s' % (type(ex).__name__, ex))
    seg = {}
    for n in ns.index:
        seg['N_' + n] = int(ns[n])
    for l in ls.index:
        seg['L_' + l] = int(ls[l])
    orc = oracle(name, uniq)
    if set(seg) != set(orc):
        return ['elements labelled %r, elements of the graph %r' % (sorted(seg), sorted(orc))]
    if any(v <= 0 for v in seg.values()):
        bad.append('non-positive segment number: %r' % {k: v for k, v in seg.items() if v <= 0})
    for a, b in itertools.combinations(sorted(seg), 2):
        if (seg[a] == seg[b]) != (orc[a] == orc[b]):
            bad.append('%s and %s: same segment = %s, joined without passing a valve = %s' % (a, b, seg[a] == seg[b], orc[a] == orc[b]))
            break
    for s in set(seg.values()):
        nn = len([k for k, v in seg.items() if v == s and k.startswith('N_')])
        nl = len([k for k, v in seg.items() if v == s and k.startswith('L_')])
        if s not in sizes.index or int(sizes.loc[s, 'node']) != nn or int(sizes.loc[s, 'link']) != nl:
            bad.append('segment %d size reported %r, members: %d nodes %d links' % (s, dict(sizes.loc[s]) if s in sizes.index else None, nn, nl))
            break
    if len(sizes.index) != len(set(seg.values())):
        bad.append('segment_size has %d rows for %d segments' % (len(sizes.index), len(set(seg.values()))))
    if uniq and not bad:
        layer2 = layer.drop_duplicates().reset_index(drop=True)
        try:
            attr = TP.valve_segment_attributes(layer2, ns, ls)
        except Exception as ex:
            return ['valve_segment_attributes raised %s: %s' % (type(ex).__name__, ex)]
        for i, (l, n) in enumerate(uniq):
            sl, sn = orc['L_' + l], orc['N_' + n]
            if sl == sn:
                want = 0
            else:
                both = {k for k, v in orc.items() if v in (sl, sn)}
                want = len([w for w in uniq if ('L_' + w[0] in both or 'N_' + w[1] in both)]) - 1
            if int(attr.loc[i, 'num_surround']) != want:
                bad.append('valve %d (%s,%s): num_surround %d, valves on its two segments %d' % (i, l, n, int(attr.loc[i, 'num_surround']), want))
                break
    return bad


def check_partition(rep, name, part, nparts):
    tag = '%s.%d' % (name, part) if nparts > 1 else name
    prs = pairs(name)

    def harness(c):
        V = SymVars(c)
        first = V.choice('part', [part])
        bits = []
        for k, pr in enumerate(prs):
            if k < 2 and nparts > 1:
                bits.append(bool((part >> k) & 1))
            else:
                bits.append(V.choice('v%d' % k, [False, True]))
        dup = V.choice('dup', [False, True])
        valves = [pr for pr, b in zip(prs, bits) if b]
        return valves, dup, check_layer(name, valves, dup)
    n = 0
    found = None
    for path in symx.explore(harness, max_paths=200000, timeout_s=500):
        if path.exc is not None:
            raise path.exc
        n += 1
        valves, dup, bad = path.value
        if bad and found is None:
            found = (valves, dup, bad)
    rep.extra['layers_' + tag] = n
    if found is None:
        rep.discharged('partition/' + tag, sample={'graph': GRAPHS[name], 'layers_explored': n})
    else:
        rep.counterexample('partition/' + tag, dict(graph=name, valves=[list(v) for v in found[0]], dup=found[1], why=found[2][0][:300]), 'partition')


def replay_partition(i):
    bad = check_layer(i['graph'], [tuple(v) for v in i['valves']], i['dup'])
    return 'graph %s, valves %r%s: %s' % (i['graph'], i['valves'], ' (+duplicate row)' if i['dup'] else '', bad[0]) if bad else None


# ------------------------------------------------------------------------------------------------
RATIO_CASES = [
    ('loop-deadend', [('d', 'C'), ('a', 'B'), ('e', 'E')]),
    ('chain-parallel', [('a', 'B'), ('b', 'B'), ('d', 'C')]),          # valve on b is by-passed by the parallel link c
    ('star', [('MILL_1', 'TOWN_1'), ('L_b', 'TOWN_1'), ('c', 'TOWN_1'), ('d', 'N_A')]),
]


def ratio_setup(V, name, valves):
    G = graph(name)
    layer = pd.DataFrame({'link': [l for l, n in valves], 'node': [n for l, n in valves]}, columns=['link', 'node'])
    with warnings.catch_warnings():
        warnings.simplefilter('ignore')
        ns, ls, sizes = TP.valve_segments(G, layer.copy())
    nodes = list(ns.index)
    links = list(ls.index)
    dem = pd.Series({n: V.real('dem_' + n, 0, 100) for n in nodes}, dtype=object if V.symbolic else float)
    ln = pd.Series({l: V.real('len_' + l, 0, 1e5) for l in links}, dtype=object if V.symbolic else float)
    return layer, ns, ls, dem, ln


def ratio_oracle(name, valves, dem, ln):
    orc = oracle(name, valves)
    out = []
    for l, n in valves:
        sl, sn = orc['L_' + l], orc['N_' + n]
        if sl == sn:
            out.append((None, None, None, None))
            continue
        Dl = sum([dem[k[2:]] for k, v in orc.items() if v == sl and k.startswith('N_')], 0.0)
        Dn = sum([dem[k[2:]] for k, v in orc.items() if v == sn and k.startswith('N_')], 0.0)
        Ll = sum([ln[k[2:]] for k, v in orc.items() if v == sl and k.startswith('L_')], 0.0)
        Ln = sum([ln[k[2:]] for k, v in orc.items() if v == sn and k.startswith('L_')], 0.0)
        out.append((Dl, Dn, Ll, Ln))
    return out


def check_ratios(rep, k, name, valves):
    tag = 'case%d(%s)' % (k, name)
    symx.install_pandas_shim()
    undo = [symx.install_shims(TP, ('max', 'isinstance'))]
    try:
        def harness(c):
            V = SymVars(c)
            layer, ns, ls, dem, ln = ratio_setup(V, name, valves)
            attr = TP.valve_segment_attributes(layer, ns, ls, demand=dem, length=ln)
            return V, dem, ln, attr
        n = 0
        for path in symx.explore(harness, max_paths=2000, timeout_s=300):
            if path.exc is not None:
                raise path.exc
            n += 1
            V, dem, ln, attr = path.value
            cons = path.constraints()
            orc = ratio_oracle(name, valves, dem, ln)
            claims = []
            for i, (Dl, Dn, Ll, Ln) in enumerate(orc):
                di, li = real(attr.loc[i, 'demand_increase']), real(attr.loc[i, 'length_increase'])
                if Dl is None:
                    claims += [di == 0, li == 0]
                    continue
                for got, a, b in ((di, real(Dl), real(Dn)), (li, real(Ll), real(Ln))):
                    mx = z3.If(a >= b, a, b)
                    claims.append(z3.If(z3.And(a == 0, b == 0), got == 0, got * mx == a + b - mx))
            if not rep.prove('ratios/%s/path%d' % (tag, n), cons, z3.And(*claims), lambda mdl, V=V: V.witness(mdl, graph=name, valves=[list(v) for v in valves]), 'ratios',
                             sample='demand_increase, length_increase == (a+b)/max(a,b) - 1 for each valve; 0 when by-passed'):
                break
        rep.reach('ratios/' + tag, cons)
    finally:
        for u in undo:
            u()


def replay_ratios(i):
    name, valves = i['graph'], [tuple(v) for v in i['valves']]
    V = ConcVars(i)
    layer, ns, ls, dem, ln = ratio_setup(V, name, valves)
    attr = TP.valve_segment_attributes(layer, ns, ls, demand=dem, length=ln)
    orc = ratio_oracle(name, valves, dem, ln)
    for k, (Dl, Dn, Ll, Ln) in enumerate(orc):
        for col, a, b in (('demand_increase', Dl, Dn), ('length_increase', Ll, Ln)):
            got = float(attr.loc[k, col])
            want = 0.0 if a is None or (a == 0 and b == 0) else (a + b) / max(a, b) - 1
            if abs(got - want) > 1e-9 * (1 + abs(want)):
                return 'valve %d %r: %s = %r, documented ratio %r' % (k, valves[k], col, got, want)
    return None


def run(rep, only=None):
    rep.explanation = ('Partition half: every valve layer (one forked bit per link-end pair, plus a duplicated row) on each listed graph is run through the real pandas/networkx code and compared '
                       'with a union-find oracle; the solver drives the enumeration and certifies that it is exhaustive. Ratio half: demands and lengths are z3 proxies in pandas object Series '
                       'pushed through the real valve_segment_attributes; z3 decides the documented ratios for all non-negative values.')
    rep.encode(TP.valve_segments, TP.valve_segment_attributes, TP._valve_criticality, TP._valve_criticality_demand, TP._valve_criticality_length)
    rep.stub('pandas.core.nanops._ensure_numeric lets proxies through; max/isinstance shims in wntr.metrics.topographic')
    rep.bound('4 graphs (<= 5 nodes, <= 5 links; parallel links, loop, dead ends, two components); all 2^(2*links) valve layers each, with and without a duplicated row')
    rep.bound('ratios: 3 (graph, layer) cases incl. a by-passed valve; all node demands in [0, 100] and link lengths in [0, 1e5] symbolic')
    tasks = []
    for name in GRAPHS:
        nparts = 4 if len(GRAPHS[name]) >= 4 else 1
        for part in range(nparts):
            tasks.append(('partition-%s-%d' % (name, part), check_partition, (name, part, nparts)))
    for k, (name, valves) in enumerate(RATIO_CASES):
        tasks.append(('ratios-%d' % k, check_ratios, (k, name, valves)))
    run_parallel(rep, tasks)

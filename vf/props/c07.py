"""C07  Pressure-dependent demand follows the documented pressure-demand curve.

The real `create_hydraulic_model` (pmin/pnom/pdd_poly_coeffs params, pdd_constraint) builds the model of
a two-junction network; `m.pdd[j].evaluate()` - the real ConditionalExpression/expression evaluation -
runs on proxies for head, demand and requested demand.  Each explored branch yields the residual
r(p, d, D) as a z3 term.  Obligations, per configuration and junction:
  form        r == d - D*g(p)  for all p, d, D  (so d = D*g(p) on the solution set; D = 0 => d = 0)
  partition   the branch regions tile the pressure axis and switch at Pmin, Pmin+delta, Preq-delta, Preq
  low         p <= Pmin        =>  -1e-11*(Pmin-p)*(1+1e-6) - 1e-7 <= g(p) <= 1e-7
  high        p >= Preq        =>  1 - 1e-7 <= g(p) <= 1 + 1e-11*(p-Preq)*(1+1e-6) + 1e-7
  middle      Pmin+delta+1e-7 <= p <= Preq-delta-1e-7  =>  |g(p) - ((p-Pmin)/(Preq-Pmin))**e| <= 1e-7
  continuity  adjacent branch values agree at each switching point (|.| <= 1e-7)
  monotone    p1 <= p2  =>  g(p1) <= g(p2) + 1e-7      (two-point query over the folded curve)
  range       0-1e-7 <= g <= 1+1e-7 inside the bands
Per-junction Pmin/Preq/exponent: the oracle parameters of a junction are its own when set, else global.
Quick: parameters from a grid (concrete), p/d/D symbolic.  Thorough adds Pmin, Preq symbolic
(the real pdd_poly_coeffs_param/cubic_spline run on proxies).
"""
import math
import z3

from .. import symx, amlsmt
from ..symx import Sym, real, rv, zabs
from ..report import guarded

import wntr
from wntr.sim import hydraulics
from wntr.sim.models import constraint, param, constants
from wntr.utils import polynomial_interpolation

DELTA = 0.05      # documented width of the smoothing band (m)
SLOPE = 1e-11


def make_wn(gpmin, gpreq, gexp, override=None):
    wn = wntr.network.WaterNetworkModel()
    wn.add_reservoir('R', base_head=60.0)
    wn.add_junction('J1', base_demand=0.01, elevation=10.0)
    wn.add_junction('J2', base_demand=0.02, elevation=-3.5)
    wn.add_pipe('P1', 'R', 'J1')
    wn.add_pipe('P2', 'J1', 'J2')
    wn.options.hydraulic.demand_model = 'PDD'
    wn.options.hydraulic.minimum_pressure = gpmin
    wn.options.hydraulic.required_pressure = gpreq
    wn.options.hydraulic.pressure_exponent = gexp
    if override is not None:
        j = wn.get_node('J1')
        j.minimum_pressure, j.required_pressure, j.pressure_exponent = override
    return wn


GRID_QUICK = [
    # (global Pmin, Preq, exponent), J1 override or None
    ((0.0, 20.0, 0.5), None),
    ((3.516, 21.097, 0.5), None),
    ((0.0, 20.0, 1.0), None),
    ((0.0, 20.0, 0.4), None),
    ((2.0, 30.0, 0.55), (5.0, 25.0, 0.7)),
    ((0.0, 0.07, 0.5), (1.0, 15.0, 0.5)),
    ((0.0, 14.0, 0.5), (0.0, 0.5, 0.5)),
    ((2.0, 20.0, 0.5), (0.0, 25.0, 0.5)),   # a junction's own minimum pressure of exactly 0 under a non-zero global one
    ((0.0, 0.07, 0.5), None),      # WNTR/EPANET default options
]
GRID_THOROUGH = GRID_QUICK + [
    ((0.0, 20.0, 0.25), None), ((0.0, 20.0, 0.75), None), ((10.0, 11.0, 0.5), None), ((0.0, 100.0, 0.9), (0.0, 1.0, 0.1)),
    ((1.0, 2.0, 0.5), (None, 40.0, None)), ((1.0, 25.0, 0.5), (3.0, None, 1.0)),
]


def _params(cfg, junction):
    g, ov = cfg
    if junction == 'J1' and ov is not None:
        return tuple(o if o is not None else gg for o, gg in zip(ov, g))
    return g


def _oracle_pow(c, x, e):
    if e == 1.0:
        return real(x)
    return real(Sym(x) ** e)


def check_config(rep, cfg, junction, tag):
    pmin, preq, e = _params(cfg, junction)
    wn = make_wn(*cfg[0], override=cfg[1])
    elev = wn.get_node(junction).elevation
    with amlsmt.installed():
        m, upd = hydraulics.create_hydraulic_model(wn)
        con = m.pdd[junction]

        def harness(c):
            p = c.real('p')
            m.head[junction].value = p + elev
            m.demand[junction].value = c.real('d')
            m.expected_demand[junction].value = c.real('D')
            return con.evaluate()

        paths = list(symx.explore(harness, max_paths=64))
    base = dict(cfg=[list(cfg[0]), list(cfg[1]) if cfg[1] else None], junction=junction, pmin=pmin, preq=preq, exponent=e)
    _obligations(rep, paths, tag, base, rv(pmin), rv(preq), e, [], concrete=(pmin, preq))


UPDATES = [
    # global options, J1 override at build time, J1 (Pmin, Preq) after a mid-run change through the ModelUpdater
    ((0.0, 20.0, 0.5), (2.0, 30.0, None), (2.0, 20.0)),     # required pressure lowered by a control
    ((0.0, 20.0, 0.5), (2.0, 30.0, None), (5.0, 30.0)),     # minimum pressure raised
    ((1.0, 25.0, 0.5), None, (3.0, 18.0)),                  # both set on a junction that had no override
]


def check_update(rep, k, upd_cfg):
    g, ov, (pmin2, preq2) = upd_cfg
    tag = 'update%d.J1(Pmin %s->%g, Preq %s->%g)' % (k, ov[0] if ov else g[0], pmin2, ov[1] if ov else g[1], preq2)
    wn = make_wn(*g, override=ov)
    node = wn.get_node('J1')
    elev = node.elevation
    with amlsmt.installed():
        m, upd = hydraulics.create_hydraulic_model(wn)
        for attr, val in (('minimum_pressure', pmin2), ('required_pressure', preq2)):
            if getattr(node, attr) != val:
                setattr(node, attr, val)
                upd.update(m, wn, node, attr)     # what update_model_for_controls does when a control changed this attribute

        def harness(c):
            p = c.real('p')
            m.head['J1'].value = p + elev
            m.demand['J1'].value = c.real('d')
            m.expected_demand['J1'].value = c.real('D')
            return m.pdd['J1'].evaluate()
        paths = list(symx.explore(harness, max_paths=64))
    e = (ov[2] if ov and ov[2] is not None else g[2])
    base = dict(cfg=[list(g), list(ov) if ov else None], junction='J1', pmin=pmin2, preq=preq2, exponent=e, update=[pmin2, preq2])
    _obligations(rep, paths, tag, base, rv(pmin2), rv(preq2), e, [], concrete=(pmin2, preq2))


def _obligations(rep, paths, tag, base, Pmin, Preq, e, pre, concrete=None, two_point=True):
    """paths: explored branches of r(p,d,D).  Pmin/Preq z3 reals (numerals or symbolic); pre: assumptions"""
    p, d, D = z3.Real('p'), z3.Real('d'), z3.Real('D')
    delta, slope = rv(DELTA), rv(SLOPE)

    def wit(**fixed):
        def w(model):
            out = dict(base)
            for k in ('p', 'p1', 'p2', 'd', 'D', 'Pmin', 'Preq'):
                out[k] = symx.model_value(model, z3.Real(k))
            out.update(fixed)
            return out
        return w

    for pa in paths:
        if pa.exc is not None:
            rep.counterexample('build/' + tag, dict(base, why='%s: %s' % (type(pa.exc).__name__, pa.exc), p=float('nan')), 'curve')
            return
    # ---- form: residual is d - D*g(p) on every branch
    gs = []
    for i, pa in enumerate(paths):
        r = real(pa.value)
        g = z3.simplify(-z3.substitute(r, (d, z3.RealVal(0)), (D, z3.RealVal(1))))
        gs.append(g)
        rep.prove('form/%s/branch%d' % (tag, i), pre + pa.constraints(), r == d - D * g, wit(kind='form'), 'curve',
                  sample='r(p,d,D) == d - D*g(p) on branch %d' % i)
    sides = [s for pa in paths for s in pa.side]
    G = None
    for pa, g in reversed(list(zip(paths, gs))):
        cond = z3.And(*pa.pc) if pa.pc else z3.BoolVal(True)
        G = g if G is None else z3.If(cond, g, G)
    cover = z3.Or(*[z3.And(*pa.pc) if pa.pc else z3.BoolVal(True) for pa in paths])
    rep.prove('partition.cover/' + tag, pre + sides, cover, wit(kind='cover'), None)
    # ---- switching points and continuity (branch i -> branch i+1)
    bounds = []
    if concrete is not None:
        expected = [concrete[0], concrete[0] + DELTA, concrete[1] - DELTA, concrete[1]]
        for i, pa in enumerate(paths[:-1]):
            o = z3.Optimize()
            o.set('timeout', 20000)
            for cst in pre + pa.constraints():
                o.add(cst)
            hmax = o.maximize(p)
            if o.check() != z3.sat:
                rep.harness_error('switch point %d of %s: optimize failed' % (i, tag))
                return
            b = o.upper(hmax)
            if z3.is_int_value(b):
                b = z3.RealVal(b.as_long())
            if not z3.is_rational_value(b):
                rep.counterexample('partition.switch/%s/%d' % (tag, i), dict(base, kind='switch', why='branch %d unbounded above' % i, p=0.0), 'curve')
                return
            bounds.append(b)
        bf = [float(b.as_fraction()) for b in bounds]
        ok = len(bf) == 4 and all(abs(a - b) <= 1e-7 for a, b in zip(bf, expected))
        # with overlapping bands (Preq-Pmin < 2*delta) a branch disappears: the documented curve has no such case
        if ok:
            rep.discharged('partition.switch/' + tag, sample={'switch_points': bf})
        else:
            rep.counterexample('partition.switch/' + tag, dict(base, kind='switch', got=bf, expected=expected, p=bf[0] if bf else 0.0), 'curve')
        for i, b in enumerate(bounds):
            vl = z3.substitute(gs[i], (p, b))
            vr = z3.substitute(gs[i + 1], (p, b))
            sd = [z3.substitute(s, (p, b)) for s in paths[i].side + paths[i + 1].side]
            ax = symx.pow_axioms([vl, vr] + sd)
            rep.prove('continuity/%s/switch%d' % (tag, i), sd + ax, zabs(vl - vr) <= rv(1e-7),
                      lambda model, b=b, i=i: dict(base, kind='continuity', p=float(b.as_fraction()), switch=i), 'curve',
                      sample='|g_left(b) - g_right(b)| <= 1e-7 at switching point %g' % float(b.as_fraction()))
    knots = []
    if concrete is not None and e not in (0.5, 1.0):
        f = z3.Function('pow_%r' % float(e), z3.RealSort(), z3.RealSort())
        knots = [f(z3.simplify((b - Pmin) / (Preq - Pmin))) for b in bounds]
    cons = pre + sides + symx.pow_axioms([G] + sides + knots)
    # ---- low / high / middle
    rep.prove('low/' + tag, cons + [p <= Pmin], z3.And(G <= rv(1e-7), G >= -slope * (Pmin - p) * rv(1.000001) - rv(1e-7)), wit(kind='low'), 'curve',
              sample='p <= Pmin => g(p) in [-1e-11*(Pmin-p), 0]')
    rep.prove('high/' + tag, cons + [p >= Preq], z3.And(G >= 1 - rv(1e-7), G <= 1 + slope * (p - Preq) * rv(1.000001) + rv(1e-7)), wit(kind='high'), 'curve',
              sample='p >= Preq => g(p) in [1, 1+1e-11*(p-Preq)]')
    # middle region: oracle value
    x = (p - Pmin) / (Preq - Pmin)
    mid_cons = list(cons) + [p >= Pmin + delta + rv(1e-7), p <= Preq - delta - rv(1e-7)]
    if e == 1.0:
        orc = x
    elif e == 0.5:
        s = z3.Real('oracle_sqrt')
        mid_cons += [s >= 0, s * s == x]
        orc = s
    else:
        f = z3.Function('pow_%r' % float(e), z3.RealSort(), z3.RealSort())
        orc = f(x)
        mid_cons += symx.pow_axioms([G, orc] + sides + knots)
    rep.prove('middle/' + tag, mid_cons, zabs(G - orc) <= rv(1e-7), wit(kind='middle'), 'curve',
              sample='Pmin+delta <= p <= Preq-delta => g(p) == ((p-Pmin)/(Preq-Pmin))**%g' % e)
    if concrete is not None and concrete[1] - concrete[0] > 2 * DELTA:
        rep.reach('middle/' + tag, mid_cons)
    if not two_point:
        return
    # ---- monotone (two-point query)
    p1, p2 = z3.Real('p1'), z3.Real('p2')
    keep = ['Pmin', 'Preq']
    c1 = symx.rename([G] + sides, '_1', keep)
    c2 = symx.rename([G] + sides, '_2', keep)
    G1 = z3.substitute(c1[0], (z3.Real('p_1'), p1))
    G2 = z3.substitute(c2[0], (z3.Real('p_2'), p2))
    s1 = [z3.substitute(t, (z3.Real('p_1'), p1)) for t in c1[1:]]
    s2 = [z3.substitute(t, (z3.Real('p_2'), p2)) for t in c2[1:]]
    mono_cons = pre + s1 + s2 + symx.pow_axioms([G1, G2] + s1 + s2 + knots) + [p1 <= p2]
    rep.prove('monotone/' + tag, mono_cons, G1 <= G2 + rv(1e-7), wit(kind='monotone'), 'curve',
              sample='p1 <= p2 => g(p1) <= g(p2) + 1e-7')
    rep.prove('range/' + tag, cons, z3.Implies(z3.And(p >= Pmin, p <= Preq), z3.And(G >= -rv(1e-7), G <= 1 + rv(1e-7))), wit(kind='range'), 'curve')


def check_symbolic(rep, e, tag):
    """Pmin, Preq symbolic: the real pmin/pnom/pdd_poly_coeffs params and cubic_spline run on proxies."""
    Pmin, Preq = z3.Real('Pmin'), z3.Real('Preq')
    pre = [Pmin >= 0, Pmin <= 100, Preq - Pmin >= rv(0.2), Preq <= 200]
    with amlsmt.installed():
        def harness(c):
            for a in pre:
                c.assume(a)
            wn = make_wn(0.0, 20.0, e, override=(Sym(Pmin), Sym(Preq), None))
            m, upd = hydraulics.create_hydraulic_model(wn)
            p = c.real('p')
            m.head['J1'].value = p + 10.0
            m.demand['J1'].value = c.real('d')
            m.expected_demand['J1'].value = c.real('D')
            return m.pdd['J1'].evaluate()
        paths = list(symx.explore(harness, max_paths=64, feas_timeout_ms=20000))
    base = dict(cfg=[[0.0, 20.0, e], ['Pmin', 'Preq', None]], junction='J1', pmin=None, preq=None, exponent=e, symbolic=True)
    _obligations(rep, paths, tag, base, Pmin, Preq, e, pre, concrete=None, two_point=False)
    # continuity with symbolic switching points
    p, delta = z3.Real('p'), rv(DELTA)
    d, D = z3.Real('d'), z3.Real('D')
    gs = [z3.simplify(-z3.substitute(real(pa.value), (d, z3.RealVal(0)), (D, z3.RealVal(1)))) for pa in paths]
    if len(paths) == 5:
        for i, b in enumerate([Pmin, Pmin + delta, Preq - delta, Preq]):
            vl = z3.substitute(gs[i], (p, b))
            vr = z3.substitute(gs[i + 1], (p, b))
            sd = [z3.substitute(s, (p, b)) for s in paths[i].side + paths[i + 1].side]
            rep.prove('continuity/%s/switch%d' % (tag, i), pre + sd + symx.pow_axioms([vl, vr] + sd), zabs(vl - vr) <= rv(1e-7),
                      lambda model, i=i: dict(base, kind='continuity', switch=i, Pmin=symx.model_value(model, Pmin), Preq=symx.model_value(model, Preq),
                                              p=symx.model_value(model, [Pmin, Pmin + delta, Preq - delta, Preq][i])), 'curve')
    else:
        rep.harness_error('%s: expected 5 branches, got %d' % (tag, len(paths)))


def run(rep, only=None):
    rep.explanation = ('The real model builder (create_hydraulic_model -> pdd params, cubic_spline, pdd_constraint) runs with a value-container '
                       'evaluator; the real ConditionalExpression.evaluate runs on z3 proxies for pressure/demand; z3 decides form, partition, '
                       'low/high/middle, continuity and two-point monotonicity of the delivered-demand curve for all pressures and demands.')
    rep.encode(constraint.pdd_constraint.build, param.pdd_poly_coeffs_param.build, param.pmin_param.build, param.pnom_param.build,
               constants.pdd_constants, polynomial_interpolation.cubic_spline, hydraulics.create_hydraulic_model,
               wntr.sim.aml.expr.ConditionalExpression.evaluate, wntr.sim.aml.expr.expression.evaluate, wntr.sim.aml.expr.inequality)
    for s in amlsmt.STUBS:
        rep.stub(s)
    rep.bound('pressure p, delivered demand d, requested demand D: any real')
    rep.bound('mid-run changes of a junction minimum/required pressure through the ModelUpdater (3 listed transitions)')
    rep.bound('quick: (Pmin, Preq, exponent, per-junction override) from a listed grid incl. the default options; thorough adds Pmin in [0,100], '
              'Preq-Pmin >= 0.2, Preq <= 200 symbolic for exponent 0.5 (form, cover, low, high, middle, continuity; the two-point monotone and range queries over symbolic spline coefficients time out in z3 at 120 s and are claimed on the grid only)')
    rep.bound('exponent 0.5: exact (s>=0, s*s=x); exponent 1: exact; other exponents: uninterpreted strictly increasing function with pow(0)=0, '
              'pow(1)=1 and numeric values at concrete arguments')
    rep.assume('floats as reals; smoothing band width delta=0.05 m and slope 1e-11 as documented in the WNTR hydraulics documentation')
    grid = GRID_THOROUGH if rep.tier == 'thorough' else GRID_QUICK
    for k, cfg in enumerate(grid):
        for j in ('J1', 'J2'):
            tag = 'cfg%d.%s(Pmin=%g,Preq=%g,e=%g)' % ((k, j) + _params(cfg, j))
            guarded(rep, tag, check_config, rep, cfg, j, tag)
    for k, u in enumerate(UPDATES):
        guarded(rep, 'update%d' % k, check_update, rep, k, u)
    if rep.tier == 'thorough':
        guarded(rep, 'symbolic-e0.5', check_symbolic, rep, 0.5, 'sym(Pmin,Preq;e=0.5)')
    rep.templates.append('R-P1-J1-P2-J2, PDD; J1 optionally overriding Pmin/Preq/exponent')


# ---- replay: real model (C++ evaluator), plain floats -------------------------------------------------
_UPDATE = [None]


def _g_real(cfg, junction, ps):
    wn = make_wn(*cfg[0], override=tuple(cfg[1]) if cfg[1] else None)
    m, upd = hydraulics.create_hydraulic_model(wn)
    if _UPDATE[0] is not None and junction == 'J1':
        node = wn.get_node('J1')
        for attr, val in (('minimum_pressure', _UPDATE[0][0]), ('required_pressure', _UPDATE[0][1])):
            if getattr(node, attr) != val:
                setattr(node, attr, val)
                upd.update(m, wn, node, attr)
    elev = wn.get_node(junction).elevation
    m.demand[junction].value = 0.0
    m.expected_demand[junction].value = 1.0
    out = []
    for p in ps:
        m.head[junction].value = float(p) + elev
        out.append(-m.pdd[junction].evaluate())
    return out


def replay_curve(i):
    _UPDATE[0] = i.get('update')
    if i.get('symbolic'):
        cfg = [[0.0, 20.0, i['exponent']], [i['Pmin'], i['Preq'], None]]
        pmin, preq, e = i['Pmin'], i['Preq'], i['exponent']
    else:
        cfg = i['cfg']
        pmin, preq, e = i['pmin'], i['preq'], i['exponent']
    j = i['junction']
    kind = i.get('kind')
    if 'why' in i and kind is None:
        try:
            _g_real(cfg, j, [0.0])
        except Exception as ex:
            return 'model build failed: %s' % ex
        return None

    def ref(p):
        if p <= pmin:
            return 0.0
        if p >= preq:
            return 1.0
        return ((p - pmin) / (preq - pmin)) ** e
    if kind == 'switch':
        # the curve must follow the documented law outside the two narrow bands: sample just outside them
        pts = [pmin + DELTA + 1e-6, (pmin + preq) / 2, preq - DELTA - 1e-6]
        if preq - pmin > 2 * DELTA:
            g = _g_real(cfg, j, pts)
            bad = [(p, a, ref(p)) for p, a in zip(pts, g) if abs(a - ref(p)) > 1e-7]
            return 'curve differs from the documented law outside the smoothing bands: %r' % bad if bad else None
        # overlapping bands: continuity/monotonicity is all that can be asked
        import numpy as np
        ps = list(np.linspace(pmin - 0.01, preq + 0.01, 4001))
        g = _g_real(cfg, j, ps)
        jumps = [(ps[k], g[k], g[k + 1]) for k in range(len(ps) - 1) if abs(g[k + 1] - g[k]) > 0.02 or g[k + 1] < g[k] - 1e-7]
        return 'Preq-Pmin=%g < 2*delta: curve jumps/decreases at %r' % (preq - pmin, jumps[:3]) if jumps else None
    if kind in ('low', 'high', 'middle', 'range', 'cover'):
        p = i['p']
        try:
            g = _g_real(cfg, j, [p])[0]
        except Exception as ex:
            return 'evaluation failed at p=%r: %s' % (p, ex)
        if kind == 'low':
            return None if -SLOPE * (pmin - p) * 1.00001 - 1e-7 <= g <= 1e-7 else 'g(%r)=%r for p <= Pmin=%r' % (p, g, pmin)
        if kind == 'high':
            return None if 1 - 1e-7 <= g <= 1 + SLOPE * (p - preq) * 1.00001 + 1e-7 else 'g(%r)=%r for p >= Preq=%r' % (p, g, preq)
        if kind == 'middle':
            return None if abs(g - ref(p)) <= 1e-7 else 'g(%r)=%r, documented %r' % (p, g, ref(p))
        if kind == 'range':
            return None if -1e-7 <= g <= 1 + 1e-7 else 'g(%r)=%r outside [0,1]' % (p, g)
        return None
    if kind == 'continuity':
        b = i['p']
        eps = 1e-10
        g = _g_real(cfg, j, [b - eps, b, b + eps])
        lip = 1e4
        if abs(g[0] - g[1]) > 1e-7 + lip * eps or abs(g[2] - g[1]) > 1e-7 + lip * eps:
            return 'jump at switching point p=%r: g(b-1e-10)=%r g(b)=%r g(b+1e-10)=%r' % (b, g[0], g[1], g[2])
        return None
    if kind == 'monotone':
        g = _g_real(cfg, j, [i['p1'], i['p2']])
        return 'g(%r)=%r > g(%r)=%r' % (i['p1'], g[0], i['p2'], g[1]) if g[0] > g[1] + 1e-7 and i['p1'] <= i['p2'] else None
    if kind == 'form':
        wn = make_wn(*cfg[0], override=tuple(cfg[1]) if cfg[1] else None)
        m, upd = hydraulics.create_hydraulic_model(wn)
        elev = wn.get_node(j).elevation
        m.head[j].value = i['p'] + elev
        m.demand[j].value = i['d']
        m.expected_demand[j].value = i['D']
        r = m.pdd[j].evaluate()
        g = _g_real(cfg, j, [i['p']])[0]
        return None if abs(r - (i['d'] - i['D'] * g)) <= 1e-7 * (1 + abs(i['d']) + abs(i['D'])) else 'residual %r != d - D*g = %r' % (r, i['d'] - i['D'] * g)
    raise ValueError(kind)

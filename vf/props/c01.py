"""C01  Mass is conserved at every node at every reported time step.

balance/*    the residual of the registered (pdd_)mass_balance constraint of every junction - built by the real
             create_hydraulic_model / ModelUpdater and evaluated by the real expression code on symbolic flows,
             demands and leak rates - equals  D - sum(q into j) + sum(q out of j) + [leak active] L  for ALL
             values, with "into / out of" taken from the links' own end-node names (independent of
             get_links_for_node and the registry usage map).  Also after leak toggles and isolation rebuilds.
report/*     the real store_results_in_network + save_results on the symbolic solution: reported flowrate,
             demand, leak_demand satisfy  sum_in - sum_out - demand - leak == -residual  at junctions, and tank /
             reservoir demand == net inflow (- leak);  DD: reported demand == requested demand.
requested/*  the real expected_demand_param (Demands/TimeSeries/Pattern.at) on symbolic bases, multipliers,
             demand multiplier, sim time and pattern_start == sum base*mult[((t+ps)//dt) mod n]*multiplier.
The Newton solve itself (residual -> 0 within tolerance) is the trusted base.
"""
import z3
import numpy as np

import wntr
from wntr.sim import hydraulics
from wntr.sim.models import constraint, param, var
from wntr.network import elements as EL
import wntr.network.model as NM

from .. import symx, amlsmt, modelkit
from ..symx import Sym, real, rv, zabs
from ..harness import SymVars, ConcVars, select, close
from ..report import guarded, run_parallel

MODES = ('DD', 'PDD')


def leak_cfgs(name):
    wn = modelkit.TEMPLATES[name]()
    out = [None, ('J', wn.junction_name_list[0])]
    if wn.tank_name_list:
        out.append(('T', wn.tank_name_list[0]))
    return out


def prepare(name, mode, leak):
    wn = modelkit.TEMPLATES[name](mode)
    # edit history before the model is built: re-point both ends of one link to another node and back, and reverse one
    # link for good (the adjacency the balance rows use is kept by the registry's usage map, updated by these setters)
    juncs = wn.junction_name_list
    jj = [l for ln, l in wn.links() if l.start_node_name in juncs and l.end_node_name in juncs]
    if jj:                       # (a) start node re-pointed to another node and back
        l = jj[0]
        a_ = l.start_node_name
        other = [j for j in wn.node_name_list if j not in (a_, l.end_node_name)][0]
        l.start_node = wn.get_node(other)
        l.start_node = wn.get_node(a_)
    if len(jj) > 1:              # (b) end node re-pointed to another node and back
        l = jj[1]
        b_ = l.end_node_name
        other = [j for j in wn.node_name_list if j not in (l.start_node_name, b_)][0]
        l.end_node = wn.get_node(other)
        l.end_node = wn.get_node(b_)
    for ln, l in reversed(list(wn.pipes())):   # (c) one pipe reversed for good (start = old end, then end = old start)
        if not l.check_valve and l not in jj[:2]:
            a_, b_ = l.start_node_name, l.end_node_name
            l.start_node = wn.get_node(b_)
            l.end_node = wn.get_node(a_)
            break
    if leak is not None:
        node = wn.get_node(leak[1])
        node._leak = True
        node._leak_status = True
        node._leak_area = 0.002
        node._leak_discharge_coeff = 0.75
    return wn


def oracle_balance(wn, vars_, j, mode, leak_on):
    D = vars_[('demand', j)] if mode == 'PDD' else vars_[('expected_demand', j)]
    tot = D
    for ln, link in wn.links():
        if link.end_node_name == j:
            tot = tot - vars_[('flow', ln)]
        if link.start_node_name == j:
            tot = tot + vars_[('flow', ln)]
    if leak_on:
        tot = tot + vars_[('leak_rate', j)]
    return tot


def _balance_dict(m, mode):
    return m.pdd_mass_balance if mode == 'PDD' else m.mass_balance


STEPS = [('leak_on', 0), ('leak_off', 0), ('isolate', -1), ('reconnect', -1), ('leak_on', -1)]


def apply_step(wn, m, upd, step):
    kind, idx = step
    j = wn.get_node(wn.junction_name_list[idx])
    if kind == 'leak_on':
        j._leak, j._leak_status, j._leak_area, j._leak_discharge_coeff = True, True, 0.001, 0.6
        upd.update(m, wn, j, 'leak_status')
    elif kind == 'leak_off':
        j._leak_status = False
        upd.update(m, wn, j, 'leak_status')
    elif kind in ('isolate', 'reconnect'):
        flag = kind == 'isolate'
        j._is_isolated = flag
        upd.update(m, wn, j, '_is_isolated')
        for ln in wn.get_links_for_node(j.name):
            l = wn.get_link(ln)
            l._is_isolated = flag
            upd.update(m, wn, l, '_is_isolated')


def check_balance(rep, name, mode, leak):
    tag = '%s/%s/leak=%s' % (name, mode, leak[1] if leak else 'none')
    with amlsmt.installed():
        def harness(c):
            wn = prepare(name, mode, leak)
            m, upd = hydraulics.create_hydraulic_model(wn)
            vars_ = modelkit.symbolic_vars(c, m)
            stages = [('built', _snapshot(wn, m, mode))]
            for st in STEPS:
                apply_step(wn, m, upd, st)
                vars_.update(modelkit.symbolic_vars(c, m))
                stages.append(('%s(%s)' % (st[0], wn.junction_name_list[st[1]]), _snapshot(wn, m, mode)))
            return wn, vars_, stages
        for path in symx.explore(harness, max_paths=4):
            if path.exc is not None:
                raise path.exc
            wn, vars_, stages = path.value
            for sname, snap in stages:
                for j, (res, leak_on, isolated) in snap.items():
                    nm = 'balance/%s/%s/%s' % (tag, sname, j)
                    base = dict(template=name, mode=mode, leak=list(leak) if leak else None, stage=sname, junction=j)
                    if isolated:
                        if res is not None:
                            rep.counterexample(nm, dict(base, why='isolated junction still has a mass balance row'), 'balance')
                        else:
                            rep.discharged(nm, sample='isolated junction has no balance row')
                        continue
                    if res is None:
                        rep.counterexample(nm, dict(base, why='connected junction has no mass balance row'), 'balance')
                        continue
                    orc = oracle_balance(wn, vars_, j, mode, leak_on)
                    rep.prove(nm, path.constraints(), real(res) == real(orc),
                              lambda mdl, base=base, vars_=vars_: dict(base, **modelkit.witness_vars(mdl, vars_)), 'balance',
                              sample='residual(%s) == D - sum q_in + sum q_out + [leak] L' % j)
        rep.reach('balance/' + tag, path.constraints())


def _snapshot(wn, m, mode):
    snap = {}
    d = _balance_dict(m, mode)
    for j in wn.junction_name_list:
        node = wn.get_node(j)
        res = d[j].evaluate() if j in d else None
        snap[j] = (res, bool(node.leak_status), bool(node._is_isolated))
    return snap


def replay_balance(i):
    name, mode, leak = i['template'], i['mode'], i['leak']
    wn = prepare(name, mode, tuple(leak) if leak else None)
    m, upd = hydraulics.create_hydraulic_model(wn)
    stage = i['stage']
    if stage != 'built':
        for st in STEPS:
            apply_step(wn, m, upd, st)
            if '%s(%s)' % (st[0], wn.junction_name_list[st[1]]) == stage:
                break
    j = i['junction']
    d = _balance_dict(m, mode)
    node = wn.get_node(j)
    if 'why' in i:
        if node._is_isolated and j in d:
            return 'isolated junction %s still has a mass-balance row' % j
        if not node._is_isolated and j not in d:
            return 'connected junction %s has no mass-balance row after %s' % (j, stage)
        return None
    modelkit.assign_concrete(m, i)
    m.set_structure()
    res = d[j].evaluate()
    vals = {}
    for k, v in i.items():
        for kind in ('flow', 'head', 'demand', 'leak_rate', 'expected_demand'):
            if k.startswith(kind + '_'):
                vals[(kind, k[len(kind) + 1:])] = float(v)
    orc = oracle_balance(wn, vals, j, mode, bool(node.leak_status))
    if not close(res, orc, 1e-9, 1e-9):
        return 'mass-balance residual of %s after %s is %r, inflow/outflow by end-node names gives %r' % (j, stage, res, orc)
    return None


# ------------------------------------------------------------------------------------------------
def check_report(rep, name, mode, leak):
    tag = '%s/%s/leak=%s' % (name, mode, leak[1] if leak else 'none')
    undo = symx.install_shims(hydraulics, ('math', 'isinstance'))
    try:
        with amlsmt.installed():
            def harness(c):
                wn = prepare(name, mode, leak)
                m, upd = hydraulics.create_hydraulic_model(wn)
                vars_ = modelkit.symbolic_vars(c, m)
                res = {j: _balance_dict(m, mode)[j].evaluate() for j in wn.junction_name_list}
                hydraulics.store_results_in_network(wn, m)
                node_res, link_res = hydraulics.initialize_results_dict(wn)
                hydraulics.save_results(wn, node_res, link_res)
                return wn, vars_, res, node_res, link_res
            n = 0
            for path in symx.explore(harness, max_paths=64):
                if path.exc is not None:
                    raise path.exc
                n += 1
                wn, vars_, res, node_res, link_res = path.value
                cons = path.constraints()
                base = dict(template=name, mode=mode, leak=list(leak) if leak else None)
                wit = lambda mdl, vars_=vars_, base=base: dict(base, **modelkit.witness_vars(mdl, vars_))
                q = {ln: link_res['flowrate'][ln][0] for ln in wn.link_name_list}
                claims = [real(q[ln]) == real(vars_[('flow', ln)]) for ln in wn.link_name_list]
                rep.prove('report/%s/flowrate/path%d' % (tag, n), cons, z3.And(*claims), wit, 'report', sample='reported flowrate == model flow for every link')
                for nn, node in wn.nodes():
                    fin = sum([real(q[ln]) for ln, l in wn.links() if l.end_node_name == nn], rv(0))
                    fout = sum([real(q[ln]) for ln, l in wn.links() if l.start_node_name == nn], rv(0))
                    dem = real(node_res['demand'][nn][0])
                    lk = real(node_res['leak_demand'][nn][0])
                    if isinstance(node, wntr.network.Junction):
                        claim = z3.And(fin - fout - dem - lk == -real(res[nn]),
                                       dem == real(vars_[('demand', nn)] if mode == 'PDD' else vars_[('expected_demand', nn)]),
                                       lk == (real(vars_[('leak_rate', nn)]) if node.leak_status else rv(0)))
                        what = 'sum_in - sum_out - demand - leak == -residual; demand == model demand; leak == leak_rate iff active'
                    elif isinstance(node, wntr.network.Tank):
                        claim = z3.And(dem == fin - fout - lk, lk == (real(vars_[('leak_rate', nn)]) if node.leak_status else rv(0)))
                        what = 'tank demand == net inflow - leak'
                    else:
                        claim = z3.And(dem == fin - fout, lk == 0)
                        what = 'reservoir demand == net inflow'
                    rep.prove('report/%s/%s/path%d' % (tag, nn, n), cons, claim, wit, 'report', sample=what)
            rep.reach('report/' + tag, cons)
    finally:
        undo()


def replay_report(i):
    name, mode, leak = i['template'], i['mode'], i['leak']
    wn = prepare(name, mode, tuple(leak) if leak else None)
    m, upd = hydraulics.create_hydraulic_model(wn)
    modelkit.assign_concrete(m, i)
    m.set_structure()
    res = {j: _balance_dict(m, mode)[j].evaluate() for j in wn.junction_name_list}
    hydraulics.store_results_in_network(wn, m)
    node_res, link_res = hydraulics.initialize_results_dict(wn)
    import warnings
    with warnings.catch_warnings():
        warnings.simplefilter('ignore')
        hydraulics.save_results(wn, node_res, link_res)
    q = {ln: link_res['flowrate'][ln][0] for ln in wn.link_name_list}
    for ln in q:
        if not close(q[ln], float(i['flow_' + ln]), 1e-12, 1e-12):
            return 'reported flowrate of %s is %r, model flow %r' % (ln, q[ln], i['flow_' + ln])
    for nn, node in wn.nodes():
        fin = sum(q[ln] for ln, l in wn.links() if l.end_node_name == nn)
        fout = sum(q[ln] for ln, l in wn.links() if l.start_node_name == nn)
        dem, lk = node_res['demand'][nn][0], node_res['leak_demand'][nn][0]
        if isinstance(node, wntr.network.Junction):
            if not close(fin - fout - dem - lk, -res[nn], 1e-9, 1e-9):
                return 'junction %s: reported inflow-outflow-demand-leak = %r but -residual = %r' % (nn, fin - fout - dem - lk, -res[nn])
            want = float(i[('demand_' if mode == 'PDD' else 'expected_demand_') + nn])
            if not close(dem, want, 1e-12, 1e-12):
                return 'junction %s: reported demand %r, model demand %r' % (nn, dem, want)
            wl = float(i['leak_rate_' + nn]) if node.leak_status else 0.0
            if not close(lk, wl, 1e-12, 1e-12):
                return 'junction %s: reported leak %r, model leak %r' % (nn, lk, wl)
        elif isinstance(node, wntr.network.Tank):
            if not close(dem, fin - fout - lk, 1e-9, 1e-9):
                return 'tank %s: reported demand %r, net inflow - leak = %r' % (nn, dem, fin - fout - lk)
        else:
            if not close(dem, fin - fout, 1e-9, 1e-9):
                return 'reservoir %s: reported demand %r, net inflow %r' % (nn, dem, fin - fout)
    return None


# ------------------------------------------------------------------------------------------------
REQ_CFGS = [dict(nA=3, nB=2, dt=3600, tmax=3 * 3600), dict(nA=2, nB=4, dt=1800, tmax=2 * 3600)]


def build_req(V, cfg):
    wn = wntr.network.WaterNetworkModel()
    wn.options.time.pattern_timestep = cfg['dt']
    wn.add_pattern('A', [1.0] * cfg['nA'])
    wn.add_pattern('B', [1.0] * cfg['nB'])
    wn.add_reservoir('R1', base_head=50.0)
    wn.add_junction('J1', base_demand=1.0, demand_pattern='A', elevation=5.0, demand_category='a')
    wn.get_node('J1').add_demand(1.0, 'B', 'b')
    wn.get_node('J1').add_demand(1.0, None, 'c')
    wn.add_junction('J2', base_demand=1.0, demand_pattern='B', elevation=7.0)
    wn.add_pipe('P1', 'R1', 'J1')
    wn.add_pipe('P2', 'J1', 'J2')
    info = {'dt': cfg['dt'], 'patterns': {}, 'demands': {}}
    for pn in ('A', 'B'):
        n = cfg['n' + pn]
        ms = [V.real('m%s%d' % (pn, k), -5, 5) for k in range(n)]
        arr = np.empty(n, dtype=object)
        for k, v in enumerate(ms):
            arr[k] = v
        wn.get_pattern(pn)._multipliers = arr
        info['patterns'][pn] = ms
    for jn in ('J1', 'J2'):
        lst = []
        for k, ts in enumerate(wn.get_node(jn).demand_timeseries_list):
            b = V.real('b_%s_%d' % (jn, k), -2, 2)
            ts._base = b
            lst.append((b, ts.pattern_name, ts.category))
        info['demands'][jn] = lst
    info['mult'] = V.real('dmult', 0, 10)
    wn.options.hydraulic.__dict__['demand_multiplier'] = info['mult']
    info['pattern_start'] = V.int('pattern_start', 0, 2 * cfg['dt'])
    wn.options.time.__dict__['pattern_start'] = info['pattern_start']
    info['t'] = V.int('sim_time', 0, cfg['tmax'])
    wn.sim_time = info['t']
    return wn, info


def oracle_req(info, j):
    tot = 0.0
    for base, pat, cat in info['demands'][j]:
        if pat is None or pat not in info['patterns']:
            mlt = 1.0
        else:
            ms = info['patterns'][pat]
            step = (info['t'] + info['pattern_start']) // info['dt']
            mlt = select(ms, step % len(ms))
        tot = tot + base * mlt * info['mult']
    return tot


def check_requested(rep, k, cfg):
    tag = 'cfg%d(nA=%d,nB=%d,dt=%d)' % (k, cfg['nA'], cfg['nB'], cfg['dt'])
    undo = symx.install_shims(EL, ('int', 'float', 'isinstance', 'np'))
    try:
        with amlsmt.installed():
            def harness(c):
                V = SymVars(c)
                wn, info = build_req(V, cfg)
                m, upd = hydraulics.create_hydraulic_model(wn)
                first = {j: m.expected_demand[j].value for j in wn.junction_name_list}
                param.expected_demand_param(m, wn)   # the refresh path used before every solve
                second = {j: m.expected_demand[j].value for j in wn.junction_name_list}
                return V, info, first, second
            n = 0
            for path in symx.explore(harness, max_paths=500, timeout_s=240):
                if path.exc is not None:
                    raise path.exc
                n += 1
                V, info, first, second = path.value
                claims = []
                for j in first:
                    o = real(oracle_req(info, j))
                    claims += [real(first[j]) == o, real(second[j]) == o]
                if not rep.prove('requested/%s/path%d' % (tag, n), path.constraints(), z3.And(*claims), lambda mdl, V=V: V.witness(mdl, cfg=cfg), 'requested',
                                 sample='expected_demand param == sum base*mult[((t+pattern_start)//dt)%n]*multiplier (build and refresh)'):
                    break
            rep.reach('requested/' + tag, path.constraints())
    finally:
        undo()


def replay_requested(i):
    cfg = i['cfg']
    V = ConcVars(i)
    wn, info = build_req(V, cfg)
    m, upd = hydraulics.create_hydraulic_model(wn)
    for rnd in ('build', 'refresh'):
        for j in wn.junction_name_list:
            got = m.expected_demand[j].value
            o = oracle_req(info, j)
            if not close(got, o, 1e-9, 1e-12):
                return 'requested demand of %s (%s) at t=%d, pattern_start=%d is %r; base x pattern x multiplier gives %r' % (j, rnd, info['t'], info['pattern_start'], got, o)
        param.expected_demand_param(m, wn)
    return None


# ------------------------------------------------------------------------------------------------
def run(rep, only=None):
    rep.explanation = ('The real model builder / ModelUpdater / expression evaluation run with a value-container evaluator on z3 proxies for all flows, demands, '
                       'leak rates; the real store_results_in_network and save_results run on that symbolic solution; z3 (LRA) decides the node-balance identities '
                       'for all values. The requested demand path (expected_demand_param -> Demands/TimeSeries/Pattern.at) runs on symbolic bases, multipliers, time '
                       'and pattern_start.')
    rep.encode(constraint.mass_balance_constraint.build, constraint.pdd_mass_balance_constraint.build, hydraulics.create_hydraulic_model,
               hydraulics.store_results_in_network, hydraulics.save_results, param.expected_demand_param, var.demand_var, var.flow_var, var.leak_rate_var,
               EL.Demands.at, EL.TimeSeries.at, EL.Pattern.at, NM.WaterNetworkModel.get_links_for_node, wntr.sim.models.utils.ModelUpdater.update)
    for s in amlsmt.STUBS:
        rep.stub(s)
    rep.stub('int/float/isinstance/np shims in wntr.network.elements; math/isinstance in wntr.sim.hydraulics')
    for k, d in modelkit.DESCRIPTIONS.items():
        rep.templates.append('%s: %s' % (k, d))
    rep.bound('templates T1-T7 (<= 6 nodes, <= 8 links) x {DD, PDD} x leak {none, on a junction, on a tank}; all flows, heads, demands, leak rates: any real')
    rep.bound('rebuild history: leak on, leak off, isolate last junction, reconnect, leak on (ModelUpdater.update after each); edit history before the build: one link re-pointed to another node and back at both ends, one pipe reversed')
    rep.bound('requested demand: 2 patterns (lengths 2-4), 3 demand categories, sim_time in [0, 3 h], pattern_start in [0, 2 pattern steps]: symbolic Ints')
    rep.assume('NewtonSolver returns converged only when max |residual| < tolerance (trusted; not encoded)')
    rep.assume('floats as reals')
    tasks = []
    names = list(modelkit.TEMPLATES) if rep.tier == 'thorough' else ['T2', 'T3', 'T4', 'T5', 'T7']
    for name in names:
        for mode in MODES:
            for leak in leak_cfgs(name):
                lt = leak[1] if leak else 'none'
                tasks.append(('balance-%s-%s-%s' % (name, mode, lt), check_balance, (name, mode, leak)))
                tasks.append(('report-%s-%s-%s' % (name, mode, lt), check_report, (name, mode, leak)))
    for k, cfg in enumerate(REQ_CFGS):
        tasks.append(('requested-%d' % k, check_requested, (k, cfg)))
    run_parallel(rep, tasks)

"""C05  Reported states are consistent with every conditional simple control.

unit/*    the real TankLevelCondition.evaluate / ValueCondition.evaluate on symbolic (level, previous level, threshold,
          tank inflow): returns True iff the relation holds; when it becomes true in this step the backtrack is
          floor((level - threshold) A / q) >= 0 (the partial step lands at most one second past the crossing).
system/*  the REAL run_sim (vf.ctrlplane, vf.tankkit) on a tank network with user controls IF tank level / junction
          pressure (above|below) X THEN pipe P3 (open|closed) whose thresholds are symbolic, the tank inflow per solve
          forked from a signed set and the initial level symbolic.  At EVERY recorded step, for every user control whose
          condition holds on the recorded state, P3 has the commanded status unless a triggered control of equal or
          higher priority commands otherwise; a threshold is met by a partial step: at the first record beyond a
          threshold the overshoot is at most 2 s of the tank's flow.
"""
import math
import z3

import wntr
import wntr.sim.core as core
from wntr.network import controls as C
from wntr.network.base import LinkStatus

from .. import symx, ctrlplane, tankkit
from ..symx import Sym, real, rv, zabs
from ..harness import SymVars, ConcVars, close
from ..report import guarded, run_parallel

A = tankkit.AREA
ADJACENT = ('P2', 'P4')     # links at the tank: closure by the tank's level limits (exception (b)) applies to them
LIMIT_TOL = 1e-3            # "at a level limit": within 1 mm of it (the simulator's own band is Htol = 0.15 mm)


# ------------------------------------------------------------------------------------------------
def check_unit(rep):
    undo = [symx.install_shims(C, ('int', 'float', 'isinstance', 'math', 'np'))]
    try:
        for rel in ('gt', 'lt', 'ge', 'le'):
            def harness(c):
                V = SymVars(c)
                c.assume_fractional_floors = True
                wn = wntr.network.WaterNetworkModel()
                wn.add_tank('T', elevation=0.0, init_level=5.0, min_level=0.0, max_level=20.0, diameter=tankkit.DIAM)
                t = wn.get_node('T')
                last, cur = V.real('last_level', 0, 20), V.real('level', 0, 20)
                thr = V.real('threshold', 0, 20)
                q = V.real('q', -1, 1)
                t._head = last
                cond = C.ValueCondition(t, 'level', C.Comparison[rel], 0.0)
                cond._threshold = thr
                cond._last_value = last
                t._head = cur
                t._demand = q
                res = bool(cond.evaluate())
                return V, res, cond._backtrack, last, cur, thr, q
            n = 0
            for path in symx.explore(harness, max_paths=64):
                if path.exc is not None:
                    raise path.exc
                n += 1
                V, res, back, last, cur, thr, q = path.value
                cons = path.constraints()
                wit = lambda mdl, V=V: V.witness(mdl, rel=rel)
                up = rel in ('gt', 'ge')
                holds = (real(cur) >= real(thr)) if up else (real(cur) <= real(thr))
                held = (real(last) >= real(thr)) if up else (real(last) <= real(thr))
                rep.prove('unit/%s/truth/path%d' % (rel, n), cons, z3.BoolVal(res) == holds, wit, 'unit', sample='evaluate() == (level %s threshold)' % ('>=' if up else '<='))
                if res:
                    b = real(back)
                    exact = (real(cur) - real(thr)) * rv(A) / real(q)
                    rep.prove('unit/%s/backtrack/path%d' % (rel, n), cons + [z3.Not(held), real(q) != 0, (real(q) > 0) == z3.BoolVal(up)],
                              z3.And(b >= 0, b <= exact * rv(1 + 1e-9) + rv(1e-6), b > exact * rv(1 - 1e-9) - 1 - rv(1e-6)), wit, 'unit',
                              sample='newly true: 0 <= backtrack = floor(seconds since the crossing)')
                    rep.prove('unit/%s/no-backtrack/path%d' % (rel, n), cons + [held], b == 0, wit, 'unit', sample='already true at the previous step: no backtracking')
            rep.reach('unit/' + rel, cons)
    finally:
        for u in undo:
            u()


def replay_unit(i):
    rel = i['rel']
    wn = wntr.network.WaterNetworkModel()
    wn.add_tank('T', elevation=0.0, init_level=5.0, min_level=0.0, max_level=20.0, diameter=tankkit.DIAM)
    t = wn.get_node('T')
    t._head = i['last_level']
    cond = C.ValueCondition(t, 'level', C.Comparison[rel], i['threshold'])
    cond._last_value = i['last_level']
    t._head, t._demand = i['level'], i['q']
    res = bool(cond.evaluate())
    up = rel in ('gt', 'ge')
    d = i['level'] - i['threshold']
    if abs(d) < 1e-9:
        return None
    holds = d > 0 if up else d < 0
    if res != holds:
        return 'TankLevelCondition(%s %r).evaluate() = %s at level %r' % (rel, i['threshold'], res, i['level'])
    if res:
        dl = i['last_level'] - i['threshold']
        held = dl >= 0 if up else dl <= 0
        if held and cond._backtrack != 0:
            return 'condition already held at the previous step but backtrack = %r' % cond._backtrack
        if not held and i['q'] != 0 and (i['q'] > 0) == up:
            exact = d * A / i['q']
            if not (0 <= cond._backtrack <= exact * (1 + 1e-9) + 1e-6 and cond._backtrack > exact * (1 - 1e-9) - 1 - 1e-6):
                return 'backtrack %r, seconds since the crossing %r' % (cond._backtrack, exact)
    return None


# ------------------------------------------------------------------------------------------------
SYS_QUICK = [
    dict(name='two-thresholds', concrete_tank=True, H=3600, dur=3600, qset=[0.03], tank_link='pipe_in',
         controls=[dict(rel='gt', value=0, attr='level'), dict(rel='gt', value=1, attr='level', priority=5)]),
    # the same on the tank's PRESSURE attribute (for a tank: its level), which the API accepts next to level and head
    dict(name='tank-pressure-thresholds', concrete_tank=True, H=3600, dur=3600, qset=[0.03], tank_link='pipe_in',
         controls=[dict(rel='gt', value=0, attr='pressure'), dict(rel='gt', value=1, attr='pressure', priority=5)]),
    dict(name='drain-priorities', concrete_tank=True, H=1800, dur=3600, qset=[-0.03, 0.0], tank_link='pipe_out',
         controls=[dict(rel='lt', value=0, attr='level', priority=4), dict(rel='lt', value=1, attr='head', priority=2)]),
    dict(name='pressure+level', H=3600, dur=3600, qset=[0.02, -0.02], tank_link='pipe_in',
         controls=[dict(rel='gt', value=0, attr='pressure', source='J1'), dict(rel='lt', value=1, attr='level', priority=5)]),
]
SYS_QUICK += [
    # a low-priority control on a valve SETTING (which implies re-opening the valve) against a default-priority CLOSE on the same valve
    dict(name='valve-setting-vs-close', concrete_tank=True, valve_target=True, H=3600, dur=3600, qset=[0.03], tank_link='pipe_in',
         controls=[dict(rel='gt', value=25.0, attr='level', target='V3', what='setting', priority=1), dict(rel='gt', value=0, attr='level', target='V3', priority=3)]),
    dict(name='reader-built-controls', concrete_tank=True, valve_target=True, via_reader=True, H=3600, dur=3600, qset=[0.03], tank_link='pipe_in',
         controls=[dict(rel='gt', value=25.0, attr='level', target='V3', what='setting', priority=1), dict(rel='gt', value=0, attr='level', target='V3', priority=3)]),
    # the junction that drives a pressure control is cut off by a time control: its reported pressure is 0, the control must act on that
    dict(name='isolated-pressure', concrete_tank=True, bypass=True, time_control=True, H=3600, dur=3600, qset=[0.0], tank_link='pipe_in',
         controls=[dict(rel='lt', value=1, attr='pressure', source='J2', target='P5')]),
    # volume-curve tank with a non-zero elevation and a control on its LEVEL
    dict(name='volcurve-level', concrete_tank=True, vol_curve=True, tank_elev=7.0, init=3.0, H=3600, dur=7200, qset=[0.03], tank_link='pipe_in',
         controls=[dict(rel='gt', value=0, attr='level')]),
]
SYS_QUICK += [
    # exception (b) of the statement and its end: the target P2 is the tank's own inlet.  The tank fills to its maximum level (P2 is shut by
    # the limit), drains through the CV pipe P4 (which carries 0.03 all the time; the inlet carries 0.06), and from then on the control "P2 OPEN IF level BELOW thr" holds with the tank away from
    # the limit: P2 has to be reported open again.  P4 (a check-valve pipe leaving the tank) is listed before P2 at the tank.
    dict(name='limit-release', concrete_tank=True, init=11.5, second_link='first', p3_closed=True, H=1800, dur=3600, qset=[0.06], oset=[0.03],
         tank_link='pipe_in', no_over=True, controls=[dict(rel='lt', value=1, attr='level', target='P2')]),
]
SYS_QUICK += [
    # the mirror image at the minimum level: the tank's outlet P2 is shut when the tank runs empty, a CV pipe into the tank (listed before P2)
    # refills it, and "P2 OPEN IF level ABOVE thr" then holds away from the limit
    dict(name='limit-release-min', concrete_tank=True, init=1.5, second_link='first_in', p3_closed=True, H=1800, dur=3600, qset=[-0.06], oset=[0.03],
         tank_link='pipe_out', no_over=True, controls=[dict(rel='gt', value=1, attr='level', target='P2')]),
]
SYS_THOROUGH = SYS_QUICK + [
    dict(name='hysteresis-1step', concrete_tank=True, H=3600, dur=3600, qset=[0.03], tank_link='pipe_in',
         controls=[dict(rel='lt', value=1, attr='level'), dict(rel='gt', value=0, attr='level')], p3_closed=True),
    # (with a second, negative inflow choice the feasibility queries of this configuration do not decide within 20 s)
    dict(name='three-controls', concrete_tank=True, H=3600, dur=2 * 3600, qset=[0.03], tank_link='pipe_in',
         controls=[dict(rel='gt', value=0, attr='level'), dict(rel='gt', value=1, attr='level', priority=5), dict(rel='lt', value=0, attr='level', priority=1)]),
]


def build(V, cfg):
    wn, x = tankkit.build(V, dict(cfg, controls=[c for c in cfg['controls'] if c.get('source', 'T') == 'T']))
    # junction-pressure controls
    k0 = len(x['controls'])
    p3 = wn.get_link('P3')
    allc = []
    it = iter(x['controls'])
    for spec in cfg['controls']:
        if spec.get('source', 'T') == 'T':
            allc.append(next(it))
        else:
            thr = V.real('pthr%d' % len(allc), 0, 25)
            cond = C.ValueCondition(wn.get_node(spec['source']), 'pressure', C.Comparison[spec['rel']], 0.0)
            cond._threshold = thr
            tgt = wn.get_link(spec.get('target', 'P3'))
            ctl = C.Control(cond, C.ControlAction(tgt, 'status', LinkStatus(spec['value'])), priority=C.ControlPriority(spec.get('priority', 3)))
            wn.add_control('p%d' % len(allc), ctl)
            allc.append(dict(spec, thr=thr))
    x['controls'] = allc
    return wn, x


def check_system(rep, cfg):
    tag = cfg['name']
    plane = ctrlplane.Plane(None)
    with ctrlplane.installed(plane), tankkit.backtrack_lemma():
        def harness(c):
            V = SymVars(c)
            c.assume_fractional_floors = True
            c.resolve_quotients = True
            wn, x = build(V, cfg)
            plane.policy = tankkit.make_policy(cfg, V.choice)
            c.clock = wn
            res = plane.run(wn)
            return V, x, res
        n = 0
        failed = set()
        for path in symx.explore(harness, max_paths=6000, timeout_s=420 if rep.tier == 'quick' else 2400, feas_timeout_ms=20000):
            n += 1
            cons = path.constraints()
            if path.exc is not None:
                m_ = symx.satisfiable(cons)
                from .c06 import _inputs
                rep.counterexample('system/%s/raised' % tag, dict(_inputs(m_.model, path), cfg=cfg, why='%s: %s' % (type(path.exc).__name__, path.exc)), 'system')
                break
            V, x, res = path.value
            times, lv, dm = tankkit.tank_series(res)
            targets = sorted({c_.get('target', 'P3') for c_ in x['controls']})
            stt = {t_: ctrlplane.series(res, 'link', 'status', t_) for t_ in targets}
            sett = {t_: ctrlplane.series(res, 'link', 'setting', t_) for t_ in targets}
            st = stt.get('P3', stt[targets[0]])
            hd = {nn: ctrlplane.series(res, 'node', 'head', nn) for nn in ('T', 'J1', 'J2')}
            pr = {nn: ctrlplane.series(res, 'node', 'pressure', nn) for nn in ('T', 'J1', 'J2')}
            T = [real(t) for t in times]
            wit = lambda mdl, V=V: V.witness(mdl, cfg=cfg)

            def value(c, k):
                if c.get('source', 'T') == 'T':
                    return real(hd['T'][k]) if c['attr'] == 'head' else real(pr['T'][k])
                return real(pr[c['source']][k])
            cons_claims, over = [], []
            for k in range(len(T)):
                for a, ca in enumerate(x['controls']):
                    up = ca['rel'] in ('gt', 'ge')
                    va, ta = value(ca, k), real(ca['thr'])
                    holds = va > ta if up else va < ta
                    excuses = []
                    tg = ca.get('target', 'P3')
                    for b, cb in enumerate(x['controls']):
                        if b == a or cb.get('target', 'P3') != tg or (cb['value'] == ca['value'] and cb.get('what', 'status') == ca.get('what', 'status')) or cb.get('priority', 3) < ca.get('priority', 3):
                            continue
                        upb = cb['rel'] in ('gt', 'ge')
                        vb, tb = value(cb, k), real(cb['thr'])
                        excuses.append(vb >= tb if upb else vb <= tb)
                    if tg in ADJACENT and int(ca['value']) == 1:
                        # exception (b): the adjacent tank AT a level limit may hold the link closed
                        lvl = real(pr['T'][k])
                        excuses.append(z3.Or(lvl >= real(x['max']) - rv(LIMIT_TOL), lvl <= real(x['min']) + rv(LIMIT_TOL)))
                    if ca.get('what', 'status') == 'setting':
                        ok_now = real(sett[tg][k]) == real(ca['value'])
                    else:
                        ok_now = z3.BoolVal(int(stt[tg][k]) == int(ca['value']))
                    cons_claims.append(z3.Implies(holds, z3.Or(ok_now, *excuses)))
                    if k > 0 and ca.get('source', 'T') == 'T' and not cfg.get('no_over'):
                        vprev = value(ca, k - 1)
                        # the control acted in this step (P3 changed to the commanded status): it must have done so at the crossing
                        newly = z3.And(holds, z3.Not(vprev >= ta if up else vprev <= ta), z3.BoolVal(ca.get('what', 'status') == 'status' and int(stt[tg][k]) == int(ca['value']) and int(stt[tg][k - 1]) != int(ca['value'])))
                        over.append(z3.Implies(newly, zabs(va - ta) <= 2 * zabs(real(dm[k - 1])) / rv(25.0 if cfg.get('vol_curve') else A) + rv(1e-9)))
            claims = [('consistent', z3.And(*cons_claims))]
            if over:
                claims.append(('threshold-met-by-partial-step', z3.And(*over)))
            for name, claim in claims:
                if name in failed:
                    continue
                if not rep.prove('system/%s/%s/path%d' % (tag, name, n), cons, claim, wit, 'system', sample='%s over %d records x %d controls' % (name, len(T), len(x['controls']))):
                    failed.add(name)
            if len(failed) >= 2:
                break
        rep.extra['system_paths_' + tag] = n
        if path.exc is None and not failed:
            rep.reach('system/' + tag, cons)


def replay_system(i):
    """real simulator; tank inflow sequence realised by a demand pattern at J1 (see c06._realise)"""
    import warnings
    from .c06 import _realise
    cfg = i['cfg']
    V = ConcVars(i)
    wn, x = build(V, cfg)
    qs, k = [], 0
    while True:
        if 'choice:q%d' % k in i:
            qs.append(float(i['choice:q%d' % k]))
        elif k > 40:
            break
        k += 1
    # keep P3 under the control of the user controls: the realisation must not force it closed
    with warnings.catch_warnings():
        warnings.simplefilter('ignore')
        res = _realise_keep_p3(wn, cfg, qs)
    if isinstance(res, str):
        return res
    return _judge_run(res, x, cfg)


def _judge_run(res, x, cfg):
    """the statement, read off a real run"""
    times = [int(t) for t in res.node['head'].index]
    dm = res.node['demand']['T']

    def value(c, t):
        if c.get('source', 'T') == 'T':
            return res.node['head']['T'][t] if c['attr'] == 'head' else res.node['pressure']['T'][t]
        return res.node['pressure'][c['source']][t]
    for k, t in enumerate(times):
        for a, ca in enumerate(x['controls']):
            up = ca['rel'] in ('gt', 'ge')
            d = value(ca, t) - float(ca['thr'])
            if not (d > 1e-9 if up else d < -1e-9):
                continue
            tg = ca.get('target', 'P3')
            st = res.link['status'][tg]
            excused = False
            for b, cb in enumerate(x['controls']):
                if b == a or cb.get('target', 'P3') != tg or (cb['value'] == ca['value'] and cb.get('what', 'status') == ca.get('what', 'status')) or cb.get('priority', 3) < ca.get('priority', 3):
                    continue
                db = value(cb, t) - float(cb['thr'])
                if (db >= -1e-9) if cb['rel'] in ('gt', 'ge') else (db <= 1e-9):
                    excused = True
            if tg in ADJACENT and int(ca['value']) == 1:
                lvl = res.node['pressure']['T'][t]
                if lvl >= float(x['max']) - LIMIT_TOL or lvl <= float(x['min']) + LIMIT_TOL:
                    excused = True
            if ca.get('what', 'status') == 'setting':
                got = res.link['setting'][tg][t]
                if abs(got - float(ca['value'])) > 1e-9 and not excused:
                    return 'at t=%d control %d (%s %s %r, value %r) holds but the setting of %s is %r, commanded %r' % (t, a, ca['attr'], ca['rel'], float(ca['thr']), value(ca, t), tg, got, ca['value'])
                continue
            if int(st[t]) != int(ca['value']) and not excused:
                return 'at t=%d control %d (%s %s %r, value %r, tank level %r) holds but the status of %s is %d, commanded %d' % (
                    t, a, ca['attr'], ca['rel'], float(ca['thr']), value(ca, t), res.node['pressure']['T'][t], tg, int(st[t]), ca['value'])
            if k > 0 and ca.get('source', 'T') == 'T' and not cfg.get('no_over'):
                dp = value(ca, times[k - 1]) - float(ca['thr'])
                was = dp >= 0 if up else dp <= 0
                if not was and int(st[t]) == int(ca['value']) and int(st[times[k - 1]]) != int(ca['value']) and abs(d) > 2 * abs(dm[times[k - 1]]) / A + 1e-6:
                    return 'threshold %r of control %d overshot by %r at t=%d (flow %r): no partial step' % (float(ca['thr']), a, d, t, dm[times[k - 1]])
    return None


def _realise_keep_p3(wn, cfg, qs):
    H = cfg['H']
    nsteps = cfg['dur'] // H + 1
    wn.get_link('P1').initial_status = 'CLOSED'
    wn.get_link('P1')._user_status = LinkStatus.Closed
    seq = (qs + [qs[-1] if qs else 0.0] * nsteps)[:max(nsteps, 1)]
    wn.options.time.pattern_timestep = H
    wn.add_pattern('real', [-q for q in seq])
    j1 = wn.get_node('J1')
    j1.demand_timeseries_list.clear()
    j1.add_demand(1.0, 'real')
    wn.get_node('J2').demand_timeseries_list.clear()
    if cfg.get('oset'):
        # the tank drains through P4 into J2's demand all the time (P3 is shut: J1's injection q has to go into the tank)
        o = max(cfg['oset'])
        wn.get_node('J2').add_demand(-o if cfg.get('second_link') == 'first_in' else o, None)
    else:
        wn.get_node('J2').add_demand(0.0, None)
    try:
        return wntr.sim.WNTRSimulator(wn).run_sim()
    except Exception as ex:
        return 'run_sim raised %s: %s' % (type(ex).__name__, ex)


# ------------------------------------------------------------------------------------------------
def run(rep, only=None):
    rep.explanation = ('Unit: the real TankLevelCondition/ValueCondition.evaluate on symbolic levels, thresholds and inflow. System: the real run_sim with the Newton solve '
                       'stubbed; thresholds of the user controls and the initial level are symbolic, the tank inflow is forked per solve; all feasible paths of presolve '
                       'backtracking, priority ordering and the post-solve re-solve loop are explored; z3 proves that every control whose condition holds on a recorded state '
                       'has its commanded status (or is overridden by an equal/higher-priority triggered control) and that thresholds are met by partial steps.')
    rep.encode(C.TankLevelCondition.evaluate, C.ValueCondition.evaluate, C.Rule.is_control_action_required, C.ControlChecker.check, C.ControlChangeTracker.update,
               core.WNTRSimulator.run_sim, core.WNTRSimulator._compute_next_timestep_and_run_presolve_controls_and_rules, core.WNTRSimulator._run_postsolve_controls,
               wntr.sim.hydraulics.update_tank_heads)
    for s in ctrlplane.STUBS:
        rep.stub(s)
    rep.bound('two hydraulic steps with a symbolic backtrack in the first AND symbolic thresholds crossed in the second (a hysteresis pair cycling) make the time arithmetic (mod/floor over products) undecided by z3 within 60 s: not claimed; ')
    rep.bound('linear variant: tank area 50 m2; per-solve tank inflow forked from the listed sets; initial level, limits and all thresholds symbolic; <= 2 (thorough 3) hydraulic steps; k <= 2 (3) user controls '
              'on one target pipe: hysteresis pair, two thresholds crossed in one step, priorities, level/head/junction-pressure sources')
    rep.assume('assume-guarantee: a symbolic TankLevelCondition backtrack b satisfies 0 <= b <= current step length (proved by unit/*/backtrack + linear level update)')
    rep.assume('contract H for the stubbed solve; rounded comparisons: sides equal or >= 1e-10 apart; crossing instants not exact integer seconds')
    rep.assume('the target P3 has no check valve / pump shut-off / tank-limit closure, so exception (b) of the statement does not arise; equal-priority conflicting controls both holding: either outcome accepted')
    tasks = [('unit', check_unit, ())]
    for cfg in (SYS_THOROUGH if rep.tier == 'thorough' else SYS_QUICK):
        tasks.append(('system-' + cfg['name'], check_system, (cfg,)))
    run_parallel(rep, tasks)

"""C10  Pausing, pickling and restarting a simulation equals running it uninterrupted.

The REAL run_sim (vf.ctrlplane) on the vf.runkit scenario.  Run A: one call to duration T.  Run B: duration T1, optionally
pickle.dumps/loads of the model (proxies round-trip through a side table), then a NEW WNTRSimulator continues to T (one or
two pauses).  Controls, a rule on a finer rule grid, a clock-time control, a leak window and a tank-level threshold have
symbolic instants / values on either side of the pause; the stubbed solve returns the same values as a function of the
model state in both runs.  On every feasible pair of paths:
   continues   the continued part starts at the first hydraulic step after the paused run ended and never revisits a time:
               the concatenated times strictly increase
   equal       concat(B1, B2[, B3]) == A, record by record, for times, statuses, settings, flows, tank heads, demands and
               leak demands (z3 equality of every symbolic leaf)
What pickle does to real floats and the numeric equality of real reruns are C boundaries covered by the replay only.
"""
import copy
import pickle
import z3

import wntr
import wntr.sim.core as core
from wntr.network import model as NM

from .. import symx, ctrlplane, runkit
from ..symx import Sym, real
from ..harness import SymVars, ConcVars, compare
from ..report import guarded, run_parallel

H = 3600
CFGS = [
    dict(name='time-controls', H=H, dur=3 * H, pauses=[H], pickle=False, controls=[dict(kind='status', target='P2', value=0), dict(kind='status', target='P2', value=1)]),
    dict(name='rule-fine-grid', H=H, R=1200, dur=2 * H, pauses=[H], pickle=False, controls=[dict(kind='rule', target='VT', rel='ge', then=0)]),
    dict(name='rule-else', H=H, R=1800, dur=2 * H, pauses=[H], pickle=True, controls=[dict(kind='rule', target='P2', rel='lt', then=0, **{'else': 1})]),
    dict(name='leak-window', H=H, dur=3 * H, pauses=[H, 2 * H], pickle=True, controls=[dict(kind='leak', target='J2')]),
    dict(name='level-control', H=H, dur=3 * H, pauses=[2 * H], pickle=False, controls=[dict(kind='level', target='P2', rel='gt', value=0)]),
    dict(name='tank-min-isolates', H=H, dur=4 * H, pauses=[2 * H], pickle=False, dead_end=True, tank_q=-0.02, controls=[]),
    dict(name='tank-min-crossed-right-after-the-pause', H=H, dur=3 * H, pauses=[H], pickle=False, dead_end=True, tank_q=-0.02, controls=[]),
    # the head pump lifts 50 m; its curve is swapped from one with 40 m shut-off head to one with 80 m by a control (symbolic instant)
    dict(name='pump-curve-swap', H=H, dur=3 * H, pauses=[2 * H], pickle=False, head_pump=True, heads={'J1': 110.0}, controls=[dict(kind='pump_curve', target='PH')]),
    dict(name='isolate-reconnect', H=H, dur=3 * H, pauses=[H], pickle=False, dead_end=True, controls=[dict(kind='status', target='P4', value=0), dict(kind='status', target='P4', value=1)]),
    dict(name='setting+clock', H=H, dur=2 * H, pauses=[H], pickle=True, clock=True, controls=[dict(kind='setting', target='VT', value='sym'), dict(kind='status', target='P2', value=0, clock=True)]),
]


CFGS_THOROUGH = CFGS + [
    dict(name='time-controls-3-pauses', H=H, dur=4 * H, pauses=[H, 2 * H, 3 * H], pickle=True, controls=[dict(kind='status', target='P2', value=0), dict(kind='status', target='P2', value=1)]),
    dict(name='rule-very-fine-grid', H=H, R=900, dur=3 * H, pauses=[H, 2 * H], pickle=False, controls=[dict(kind='rule', target='VT', rel='ge', then=0)]),
    dict(name='leak-window-4h', H=H, dur=4 * H, pauses=[H, 3 * H], pickle=False, controls=[dict(kind='leak', target='J2')]),
    dict(name='level-control-pickled', H=H, dur=3 * H, pauses=[H], pickle=True, controls=[dict(kind='level', target='P2', rel='lt', value=1)]),
    dict(name='setting+clock-2-pauses', H=H, dur=3 * H, pauses=[H, 2 * H], pickle=False, clock=True, controls=[dict(kind='setting', target='VT', value='sym'), dict(kind='status', target='P2', value=0, clock=True)]),
]


def run_paused(plane, wn, cfg, do_pickle):
    parts = []
    for T1 in cfg['pauses'] + [cfg['dur']]:
        wn.options.time.duration = T1
        parts.append(runkit.snapshot(plane.run(wn)))
        if do_pickle and T1 != cfg['dur']:
            wn = pickle.loads(pickle.dumps(wn))
    out = parts[0]
    for p in parts[1:]:
        out = runkit.concat(out, p)
    return out, parts


def check_cfg(rep, cfg):
    tag = cfg['name']
    tq = cfg.get('tank_q', runkit.TANK_Q)
    plane = ctrlplane.Plane(runkit.policy(tq, cfg.get('heads')))
    with ctrlplane.installed(plane):
        def harness(c):
            V = SymVars(c)
            c.assume_fractional_floors = True
            wa = runkit.build(V, cfg)
            wb = runkit.build(V, cfg)
            a = runkit.snapshot(plane.run(wa))
            b, parts = run_paused(plane, wb, cfg, cfg['pickle'])
            return V, a, b, parts
        n = 0
        bad = set()
        for path in symx.explore(harness, max_paths=8000, timeout_s=420 if rep.tier == 'quick' else 2400):
            n += 1
            cons = path.constraints()
            if path.exc is not None:
                if 'raised' not in bad:
                    bad.add('raised')
                    m_ = symx.satisfiable(cons)
                    from .c11 import _inputs
                    rep.counterexample('pause/%s/raised' % tag, dict(_inputs(m_.model), cfg=cfg, why='%s: %s' % (type(path.exc).__name__, path.exc)), 'pause')
                continue
            V, a, b, parts = path.value
            wit = lambda mdl, V=V: V.witness(mdl, cfg=cfg)
            T = [real(t) for t in b['time']]
            claims = [('continues', z3.And(*[T[k] < T[k + 1] for k in range(len(T) - 1)]) if len(T) > 1 else z3.BoolVal(True))]
            # each continued part starts at the first hydraulic step after the pause
            starts = []
            for k, (T1, part) in enumerate(zip(cfg['pauses'], parts[1:])):
                if part['time']:
                    starts.append(z3.And(real(part['time'][0]) > T1, real(part['time'][0]) <= T1 + cfg['H']))
            if starts:
                claims.append(('resumes-after-pause', z3.And(*starts)))
            mism, cl = compare(a, b)
            if mism:
                if 'equal' not in bad:
                    bad.add('equal')
                    m_ = symx.satisfiable(cons)
                    rep.counterexample('pause/%s/equal' % tag, dict(V.witness(m_.model, cfg=cfg), why='; '.join(mism[:3])), 'pause')
            else:
                claims.append(('equal', z3.And(*[x for _, x in cl]) if cl else z3.BoolVal(True)))
            for name, claim in claims:
                if name in bad:
                    continue
                if not rep.prove('pause/%s/%s/path%d' % (tag, name, n), cons, claim, wit, 'pause', sample='%s: %d records, %d symbolic leaves' % (name, len(T), len(cl))):
                    bad.add(name)
        rep.extra['paths_' + tag] = n
        if not bad:
            rep.reach('pause/' + tag, cons)


class _Default(dict):
    def __missing__(self, k):
        return 1


def replay_pause(i):
    """real simulator, real Newton solve, real pickle"""
    import warnings
    cfg = i['cfg']
    V = ConcVars(_Default(i))

    def run(w):
        with warnings.catch_warnings():
            warnings.simplefilter('ignore')
            return runkit.frames_snapshot(wntr.sim.WNTRSimulator(w).run_sim())
    def build():
        wn = runkit.build(V, cfg)
        for nn, h in (cfg.get('heads') or {}).items():
            # realise the head the stub gives this node: a reservoir at that head right next to it
            wn.add_reservoir('RH_' + nn, base_head=float(h))
            wn.add_pipe('PH_' + nn, 'RH_' + nn, nn, length=1.0, diameter=2.0, roughness=140.0)
        if cfg.get('dead_end'):
            # realise the stub's tank flow with real hydraulics: J3 hangs on the tank alone and draws 0.02 from it
            for ln in ('VT', 'PP'):
                wn.get_link(ln).initial_status = 'CLOSED'
                wn.get_link(ln)._user_status = wntr.network.LinkStatus.Closed
            j3 = wn.get_node('J3')
            j3.demand_timeseries_list.clear()
            j3.add_demand(0.02, None)
            wn.get_node('J4').demand_timeseries_list.clear()
            wn.get_node('J4').add_demand(0.001, None)
        return wn
    try:
        a = run(build())
        wb = build()
        parts = []
        for T1 in cfg['pauses'] + [cfg['dur']]:
            wb.options.time.duration = T1
            parts.append(run(wb))
            if cfg['pickle'] and T1 != cfg['dur']:
                wb = pickle.loads(pickle.dumps(wb))
    except Exception as ex:
        return 'run_sim raised %s: %s' % (type(ex).__name__, ex)
    b = parts[0]
    for p in parts[1:]:
        b = runkit.concat(b, p)
    if b['time'] != sorted(set(b['time'])):
        return 'the continued run revisits earlier times: concatenated times %r' % b['time']
    for T1, part in zip(cfg['pauses'], parts[1:]):
        if part['time'] and not (T1 < part['time'][0] <= T1 + cfg['H']):
            return 'the run continued after the pause at %d starts at %r' % (T1, part['time'][0])
    mism, _ = compare(a, b, tol=(1e-6, 1e-8))
    if mism:
        return 'paused/continued run differs from the uninterrupted one: ' + '; '.join(mism[:3])
    return None


def run(rep, only=None):
    rep.explanation = ('The real run_sim (Newton solve stubbed) executed once to T and once in 2-3 pieces with a new simulator object per piece (optionally through pickle), on a scenario with symbolic '
                       'control / rule / leak instants, setting values and a tank-level threshold; every feasible path is explored and z3 decides record-by-record equality of the concatenated '
                       'and the uninterrupted run and strict monotonicity of the concatenated times.')
    rep.encode(core.WNTRSimulator.run_sim, core.WNTRSimulator._compute_next_timestep_and_run_presolve_controls_and_rules, core.WNTRSimulator._get_control_managers,
               wntr.sim.hydraulics.update_tank_heads, wntr.sim.hydraulics.update_network_previous_values, wntr.network.controls.TankLevelCondition.__init__)
    for s in ctrlplane.STUBS:
        rep.stub(s)
    rep.stub('Sym.__reduce__: proxies survive pickle through a side table (what pickle does to real floats is covered by the replay only)')
    rep.bound('one 5-node scenario; T <= 3 (thorough 4) hydraulic steps; pause at H and/or 2H (thorough: up to three pauses); with and without a pickle round trip; rules with R < H; clock-time control with symbolic start_clocktime; '
              'leak window straddling the pause; tank-level threshold symbolic')
    tasks = [('cfg-' + cfg['name'], check_cfg, (cfg,)) for cfg in (CFGS_THOROUGH if rep.tier == 'thorough' else CFGS)]
    run_parallel(rep, tasks)

"""C19  Pipe splitting, breaking and skeletonization keep what they promise to keep.

split/*   the real wntr.morph.split_pipe / break_pipe on a model whose pipe length, diameter, roughness, minor loss,
          end elevations, end coordinates and the split fraction s in [0,1] are z3 proxies; enumerated: pipe context
          (junction-junction, junction-tank, reservoir-junction), which end gets the new pipe, check valve, initial
          status, straight pipe / polyline with vertices, return_copy.  For ALL values:
            lengths     L_orig_side == s L (or (1-s) L),  L1 + L2 == L
            position    new junction(s) at fraction s of elevation and of the straight line / polyline
            neutral     new pipe has the same diameter and roughness, no check valve; split: series resistance and minor
                        loss add up to the original's (k ~ L, so k1 + k2 == k; m1 + m2 == m); zero demand at the new junction
            untouched   every other element's dictionary entry unchanged; input model unchanged when return_copy=True
skel/*    the real wntr.morph.skeletonize (initial simulation stubbed) on a template with branch, series and parallel
          pipes, a tank, a pump, a valve and a control, with symbolic base demands, pattern multipliers, three pipe
          diameters and the diameter threshold (comparisons fork): total demand at every pattern step conserved, every
          tank/reservoir/pump/valve/control-referenced element retained, skeleton map is a partition.
"""
import copy
import math
import z3
import numpy as np
import pandas as pd

import wntr
import wntr.morph.link as ML
import wntr.morph.skel as MS
from wntr.network.base import LinkStatus
from wntr.network import elements as EL
from wntr.network.controls import Control, ControlAction, SimTimeCondition, Comparison, Rule, ValueCondition

from .. import symx
from ..symx import Sym, real, rv, zabs
from ..harness import SymVars, ConcVars, compare, close
from ..report import guarded, run_parallel

VERTS = [(10.0, 0.0), (10.0, 10.0)]    # polyline (0,0) -> (10,0) -> (10,10) -> (20,10): three segments of length 10


def build_split(V, cfg):
    wn = wntr.network.WaterNetworkModel()
    wn.add_reservoir('R', base_head=50.0, coordinates=(-5.0, 0.0))
    wn.add_junction('A', base_demand=0.01, elevation=1.0, coordinates=(0.0, 0.0))
    wn.add_junction('B', base_demand=0.02, elevation=2.0, coordinates=(20.0, 10.0))
    wn.add_tank('T', elevation=30.0, init_level=3.0, min_level=0.0, max_level=6.0, diameter=8.0, coordinates=(20.0, 10.0))
    wn.add_junction('C', base_demand=0.0, elevation=0.0, coordinates=(5.0, 5.0))
    ctx = cfg['context']
    s_, e_ = {'JJ': ('A', 'B'), 'JT': ('A', 'T'), 'RJ': ('R', 'B'), 'TJ': ('T', 'A')}[ctx]
    wn.add_pipe('P', s_, e_, length=100.0, diameter=0.3, roughness=100.0, minor_loss=0.0,
                initial_status=cfg.get('status', 'OPEN'), check_valve=cfg.get('cv', False))
    wn.add_pipe('X1', 'R', 'A', length=50.0, diameter=0.3, roughness=100.0)
    wn.add_pipe('X2', 'B', 'C', length=60.0, diameter=0.2, roughness=110.0)
    wn.add_pipe('X3', 'C', 'A', length=70.0, diameter=0.2, roughness=120.0)
    wn.add_pipe('X4', 'B', 'T', length=70.0, diameter=0.2, roughness=120.0)
    p = wn.get_link('P')
    x = {}
    x['L'] = p._length = V.pos('L', 0.01, 1e5)
    x['d'] = p._diameter = V.pos('d', 0.01, 3)
    x['C'] = p._roughness = V.pos('C', 10, 200)
    x['K'] = p._minor_loss = V.real('K', 0, 100) if cfg.get('minor', True) else 0.0
    sn, en = wn.get_node(s_), wn.get_node(e_)
    if cfg.get('verts'):
        p._vertices = list(VERTS)
        sn._coordinates, en._coordinates = (0.0, 0.0), (20.0, 10.0)
    else:
        sn._coordinates = (V.real('x0', -1e4, 1e4), V.real('y0', -1e4, 1e4))
        en._coordinates = (V.real('x1', -1e4, 1e4), V.real('y1', -1e4, 1e4))
    for nm, n in (('e0', sn), ('e1', en)):
        if not isinstance(n, EL.Reservoir):
            n._elevation = V.real(nm, -500, 5000)
    x['s'] = V.real('s', 0, 1)
    x['start'], x['end'] = s_, e_
    return wn, x


def do_op(wn, cfg, s):
    if cfg['op'] == 'split':
        return ML.split_pipe(wn, 'P', 'Pnew', 'Jnew', add_pipe_at_end=cfg['at_end'], split_at_point=s, return_copy=cfg['copy'])
    return ML.break_pipe(wn, 'P', 'Pnew', 'Jold', 'Jnew', add_pipe_at_end=cfg['at_end'], split_at_point=s, return_copy=cfg['copy'])


def polyline_point(pts, s):
    """point at fraction s of the polyline (segments of equal length 10 here); polymorphic"""
    n = len(pts) - 1
    if not isinstance(s, Sym):
        t = s * n
        k = min(int(t), n - 1)
        f = t - k
        return (pts[k][0] + (pts[k + 1][0] - pts[k][0]) * f, pts[k][1] + (pts[k + 1][1] - pts[k][1]) * f)
    out = None
    se = real(s)
    for k in range(n - 1, -1, -1):
        f = se * n - k
        px = rv(pts[k][0]) + rv(pts[k + 1][0] - pts[k][0]) * f
        py = rv(pts[k][1]) + rv(pts[k + 1][1] - pts[k][1]) * f
        if out is None:
            out = (px, py)
        else:
            cond = se * n <= k + 1
            out = (z3.If(cond, px, out[0]), z3.If(cond, py, out[1]))
    return (Sym(out[0]), Sym(out[1]))


def expectations(wn0, wn2, x, cfg):
    """list of (name, lhs, rhs) polymorphic pairs that must be equal, plus concrete failures"""
    fails, pairs = [], []
    s, L = x['s'], x['L']
    p, q = wn2.get_link('P'), wn2.get_link('Pnew')
    at_end = cfg['at_end']
    first, second = (p, q) if at_end else (q, p)      # first = piece attached to the original start node
    pairs.append(('length.start-piece', first.length, s * L))
    pairs.append(('length.end-piece', second.length, (1 - s) * L))
    pairs.append(('length.total', p.length + q.length, L))
    pairs.append(('newpipe.diameter', q.diameter, x['d']))
    pairs.append(('newpipe.roughness', q.roughness, x['C']))
    pairs.append(('origpipe.diameter', p.diameter, x['d']))
    pairs.append(('origpipe.roughness', p.roughness, x['C']))
    if q.check_valve:
        fails.append('new pipe has a check valve')
    if bool(p.check_valve) != bool(cfg.get('cv', False)):
        fails.append('original pipe check valve flag changed')
    sn, en = wn0.get_node(x['start']), wn0.get_node(x['end'])
    newj = ['Jnew'] if cfg['op'] == 'split' else ['Jold', 'Jnew']
    for jn in newj:
        if jn not in wn2.junction_name_list:
            fails.append('junction %s missing' % jn)
            continue
        j = wn2.get_node(jn)
        if isinstance(sn, EL.Reservoir):
            exp_e = en.elevation
        elif isinstance(en, EL.Reservoir):
            exp_e = sn.elevation
        else:
            exp_e = sn.elevation + (en.elevation - sn.elevation) * s
        pairs.append(('%s.elevation' % jn, j.elevation, exp_e))
        if cfg.get('verts'):
            ex, ey = polyline_point([(0.0, 0.0)] + VERTS + [(20.0, 10.0)], s)
        else:
            ex = sn.coordinates[0] + (en.coordinates[0] - sn.coordinates[0]) * s
            ey = sn.coordinates[1] + (en.coordinates[1] - sn.coordinates[1]) * s
        pairs.append(('%s.x' % jn, j.coordinates[0], ex))
        pairs.append(('%s.y' % jn, j.coordinates[1], ey))
        tot = 0.0
        for ts in j.demand_timeseries_list:
            tot = tot + ts.base_value
        pairs.append(('%s.demand' % jn, tot, 0.0))
    # connectivity
    if cfg['op'] == 'split':
        want = (x['start'], 'Jnew', 'Jnew', x['end'])
    else:
        want = (x['start'], 'Jold', 'Jnew', x['end']) if at_end else (x['start'], 'Jnew', 'Jold', x['end'])
    got = (first.start_node_name, first.end_node_name, second.start_node_name, second.end_node_name)
    if got != want:
        fails.append('connectivity %r, expected %r' % (got, want))
    if cfg['op'] == 'split' and cfg.get('minor', True):
        pairs.append(('minor_loss.series-sum', p.minor_loss + q.minor_loss, x['K']))
    # vertices partition (polyline): all original vertices kept, in order, on the right piece
    if cfg.get('verts'):
        allv = list(first.vertices) + list(second.vertices)
        if allv != list(VERTS):
            fails.append('vertices %r + %r are not the original %r' % (first.vertices, second.vertices, VERTS))
    return fails, pairs


def others_dict(wn):
    d = wntr.network.to_dict(wn)
    d['links'] = [l for l in d['links'] if l['name'] not in ('P', 'Pnew')]
    d['nodes'] = [n for n in d['nodes'] if n['name'] not in ('Jnew', 'Jold')]
    d.pop('version', None)
    return d


SPLIT_CFGS = []
for ctx_ in ('JJ', 'JT', 'RJ', 'TJ'):
    for op in ('split', 'break'):
        for at_end in (True, False):
            SPLIT_CFGS.append(dict(context=ctx_, op=op, at_end=at_end, copy=True, cv=False, verts=False))
SPLIT_CFGS += [
    dict(context='JJ', op='split', at_end=True, copy=False, cv=True, verts=False),
    dict(context='JJ', op='split', at_end=False, copy=True, cv=True, verts=False, status='CLOSED'),
    dict(context='JJ', op='break', at_end=True, copy=False, cv=True, verts=False),
    dict(context='JJ', op='split', at_end=True, copy=True, cv=False, verts=True),
    dict(context='JJ', op='split', at_end=False, copy=True, cv=False, verts=True),
    dict(context='JJ', op='break', at_end=True, copy=True, cv=False, verts=True),
]


def cfg_tag(cfg):
    return '%s.%s.%s.%s%s%s%s' % (cfg['context'], cfg['op'], 'end' if cfg['at_end'] else 'start', 'copy' if cfg['copy'] else 'inplace',
                                  '.cv' if cfg.get('cv') else '', '.verts' if cfg.get('verts') else '', '.' + cfg['status'] if cfg.get('status') else '')


def check_split(rep, cfg):
    tag = cfg_tag(cfg)
    undo = [symx.install_shims(ML, ('int', 'float', 'isinstance')), symx.install_shims(EL, ('int', 'float', 'isinstance')),
            symx.install_shims(wntr.network.model, ('int', 'float', 'isinstance'))]
    try:
        def harness(c):
            V = SymVars(c)
            wn, x = build_split(V, cfg)
            before = others_dict(wn)
            before_full = wntr.network.to_dict(wn)
            wn2 = do_op(wn, cfg, x['s'])
            return V, wn, x, before, before_full, wn2
        n = 0
        failed = set()
        for path in symx.explore(harness, max_paths=200, timeout_s=240):
            n += 1
            cons = path.constraints()
            if path.exc is not None:
                m_ = symx.satisfiable(cons)
                inp = {str(d): symx.model_value(m_.model, d()) for d in m_.model.decls() if d.arity() == 0 and not str(d).startswith(('sqrt', 'tok', 'choice'))}
                rep.counterexample('split/%s/raised' % tag, dict(inp, cfg=cfg, why='%s: %s' % (type(path.exc).__name__, path.exc)), 'split')
                failed.add('raised')
                continue
            V, wn, x, before, before_full, wn2 = path.value
            wit = lambda mdl, V=V: V.witness(mdl, cfg=cfg)
            fails, pairs = expectations(wn, wn2, x, cfg) if not cfg['copy'] else expectations(wn, wn2, x, cfg)
            for f in fails:
                key = 'structure:' + f[:30]
                if key not in failed:
                    failed.add(key)
                    m_ = symx.satisfiable(cons)
                    rep.counterexample('split/%s/structure' % tag, dict(V.witness(m_.model, cfg=cfg), why=f), 'split')
            for name, lhs, rhs in pairs:
                if name in failed:
                    continue
                grp = 'minor' if name.startswith('minor_loss') else 'geometry'
                if not rep.prove('split/%s/%s/path%d' % (tag, name, n), cons, real(lhs) == real(rhs), lambda mdl, V=V, name=name: V.witness(mdl, cfg=cfg, what=name), 'split',
                                 sample='%s == expected for all L, d, C, K, elevations, coordinates, s in [0,1]' % name):
                    failed.add(name)
            mism, claims = compare(before, others_dict(wn2))
            if mism and 'others' not in failed:
                failed.add('others')
                m_ = symx.satisfiable(cons)
                rep.counterexample('split/%s/others-changed' % tag, dict(V.witness(m_.model, cfg=cfg), why='; '.join(mism[:3])), 'split')
            elif 'others' not in failed:
                rep.prove('split/%s/others-unchanged/path%d' % (tag, n), cons, z3.And(*[cl for _, cl in claims]) if claims else z3.BoolVal(True), wit, 'split',
                          sample='dictionary entries of all other elements unchanged (%d symbolic leaves)' % len(claims))
            if cfg['copy']:
                mism, claims = compare(before_full, wntr.network.to_dict(wn))
                if mism and 'input' not in failed:
                    failed.add('input')
                    m_ = symx.satisfiable(cons)
                    rep.counterexample('split/%s/input-changed' % tag, dict(V.witness(m_.model, cfg=cfg), why='; '.join(mism[:3])), 'split')
                elif 'input' not in failed:
                    rep.prove('split/%s/input-unchanged/path%d' % (tag, n), cons, z3.And(*[cl for _, cl in claims]) if claims else z3.BoolVal(True), wit, 'split',
                              sample='input model dictionary unchanged with return_copy=True')
        if 'raised' not in failed:
            rep.reach('split/' + tag, cons)
    finally:
        for u in undo:
            u()


def replay_split(i):
    cfg = i['cfg']
    V = ConcVars(dict({'K': 0.0}, **i))
    wn, x = build_split(V, cfg)
    # the proxies were put into private attributes; use floats the same way
    before = others_dict(wn)
    before_full = wntr.network.to_dict(wn)
    try:
        wn2 = do_op(wn, cfg, x['s'])
    except Exception as ex:
        return '%s_pipe(s=%r) raised %s: %s' % (cfg['op'], x['s'], type(ex).__name__, ex)
    fails, pairs = expectations(wn, wn2, x, cfg)
    if fails:
        return '; '.join(fails)
    for name, lhs, rhs in pairs:
        if i.get('what') and name != i['what']:
            continue
        if not close(float(lhs), float(rhs), 1e-9, 1e-9):
            return '%s_pipe(s=%r, add_pipe_at_end=%s): %s is %r, expected %r' % (cfg['op'], x['s'], cfg['at_end'], name, lhs, rhs)
    mism, _ = compare(before, others_dict(wn2), tol=(1e-12, 1e-12))
    if mism:
        return 'other elements changed: ' + '; '.join(mism[:3])
    if cfg['copy']:
        mism, _ = compare(before_full, wntr.network.to_dict(wn), tol=(1e-12, 1e-12))
        if mism:
            return 'input model changed although return_copy=True: ' + '; '.join(mism[:3])
    return None


# ------------------------------------------------------------------------------------------------
# skeletonize
# ------------------------------------------------------------------------------------------------
class _FakeSim:
    """skeletonize runs one steady-state simulation to obtain head losses it never uses for decisions; return zeros"""
    def __init__(self, wn):
        self.wn = wn

    def run_sim(self, *a, **kw):
        class R:
            pass
        r = R()
        r.node = {'head': pd.DataFrame({n: [0.0] for n in self.wn.node_name_list}, index=[0])}
        return r


def build_skel(V, cfg):
    wn = wntr.network.WaterNetworkModel()
    wn.options.time.pattern_timestep = 3600
    wn.options.time.duration = 2 * 3600
    wn.add_pattern('A', [1.0, 1.0])
    wn.add_pattern('B', [1.0, 1.0, 1.0])
    wn.add_reservoir('R', base_head=60.0)
    wn.add_tank('T', elevation=40.0, init_level=3.0, min_level=0.0, max_level=6.0, diameter=8.0)
    dem = {'J1': ('A', 'c1'), 'J2': ('B', None), 'J3': ('A', None), 'J4': (None, 'c2'), 'J5': ('B', None), 'J6': ('A', None), 'J7': (None, None)}
    for jn, (pat, cat) in dem.items():
        wn.add_junction(jn, base_demand=1.0, demand_pattern=pat, elevation=1.0, demand_category=cat)
    wn.get_node('J3').add_demand(1.0, 'B', 'extra')
    pipes = [('P1', 'R', 'J1', 0.5), ('P2', 'J1', 'J2', 0.3), ('P3', 'J2', 'J3', 0.1),      # J3: dead end behind P3
             ('P4', 'J1', 'J4', 0.2), ('P5', 'J4', 'J5', 0.2),                               # J4: series junction
             ('P6', 'J5', 'J6', 0.15), ('P6b', 'J6', 'J5', 0.1),                              # parallel pair
             ('P7', 'J6', 'T', 0.3), ('P8', 'J7', 'J2', 0.1)]                                 # J7: second dead end (controlled pipe)
    for k, (pn, a, b, d) in enumerate(pipes):
        wn.add_pipe(pn, a, b, length=100.0 + 10 * k, diameter=d, roughness=100.0)
    wn.add_curve('PC', 'HEAD', [(0.05, 30.0)])
    wn.add_junction('J8', base_demand=1.0, elevation=1.0)
    wn.add_pump('PU', 'J5', 'J8', 'HEAD', 'PC')
    wn.add_junction('J9', base_demand=1.0, elevation=1.0)
    wn.add_valve('VA', 'J8', 'J9', 0.2, 'TCV', 1.0, 10.0)
    if cfg.get('control'):
        act = ControlAction(wn.get_link('P8'), 'status', LinkStatus.Closed)
        wn.add_control('ctl', Control(SimTimeCondition(wn, Comparison.eq, 3600), act))
        # rules that only READ removal candidates: the dead-end junction J3 and the series pipe P5 (their actions go to the main P1)
        # (each candidate is read by the LAST clause of a compound condition only)
        from wntr.network.controls import AndCondition, OrCondition
        c_j3 = OrCondition(ValueCondition(wn.get_node('T'), 'level', Comparison.lt, 1.0), ValueCondition(wn.get_node('J3'), 'pressure', Comparison.lt, 10.0))
        c_p5 = AndCondition(SimTimeCondition(wn, Comparison.ge, 1800), AndCondition(ValueCondition(wn.get_node('T'), 'level', Comparison.gt, 0.5), ValueCondition(wn.get_link('P5'), 'flow', Comparison.gt, 0.5)))
        wn.add_control('r_j3', Rule(c_j3, [ControlAction(wn.get_link('P1'), 'status', LinkStatus.Open)], name='r_j3'))
        wn.add_control('r_p5', Rule(c_p5, [ControlAction(wn.get_link('P1'), 'status', LinkStatus.Open)], name='r_p5'))
    info = {'patterns': {}, 'bases': {}}
    for pn, n in (('A', 2), ('B', 3)):
        ms = [V.real('m%s%d' % (pn, k), -5, 5) for k in range(n)]
        arr = np.empty(n, dtype=object)
        for k, v in enumerate(ms):
            arr[k] = v
        wn.get_pattern(pn)._multipliers = arr
        info['patterns'][pn] = ms
    for jn in wn.junction_name_list:
        for k, ts in enumerate(wn.get_node(jn).demand_timeseries_list):
            ts._base = V.real('b_%s_%d' % (jn, k), -2, 2)
    for pn in cfg.get('sym_diam', ('P3', 'P5', 'P6b')):
        wn.get_link(pn)._diameter = V.pos('d_' + pn, 0.01, 1)
    thr = V.pos('threshold', 0.01, 1) if cfg.get('sym_thr', True) else cfg['thr']
    return wn, info, thr


def total_demand(wn, t):
    tot = 0.0
    for jn, j in wn.junctions():
        tot = tot + j.demand_timeseries_list.at(t)
    return tot


SKEL_CFGS = [
    dict(name='all-ops', control=True, branch=True, series=True, parallel=True),
    dict(name='no-control', control=False, branch=True, series=True, parallel=True, sym_diam=('P3', 'P8')),
    dict(name='series-only', control=False, branch=False, series=True, parallel=False, sym_diam=('P4', 'P5')),
    dict(name='parallel-only', control=False, branch=False, series=False, parallel=True, sym_diam=('P6', 'P6b')),
    dict(name='excluded', control=False, branch=True, series=True, parallel=True, sym_diam=('P3',), exclude_pipes=['P6b'], exclude_juncs=['J4']),
]


def run_skel(wn, cfg, thr):
    return MS.skeletonize(wn, thr, branch_trim=cfg['branch'], series_pipe_merge=cfg['series'], parallel_pipe_merge=cfg['parallel'],
                          return_map=True, return_copy=True, pipes_to_exclude=cfg.get('exclude_pipes', []), junctions_to_exclude=cfg.get('exclude_juncs', []))


def structure_failures(wn, wn2, smap, cfg):
    out = []
    for names, what in ((wn.tank_name_list, 'tank'), (wn.reservoir_name_list, 'reservoir')):
        for n in names:
            if n not in wn2.node_name_list:
                out.append('%s %s removed' % (what, n))
    for n in wn.pump_name_list + wn.valve_name_list:
        if n not in wn2.link_name_list:
            out.append('pump/valve %s removed' % n)
    from .c14 import control_objects        # walks conditions and actions itself (not through requires())
    for cn, ctl in wn2.controls():
        for req in control_objects(ctl):
            nm = getattr(req, 'name', None)
            if isinstance(req, EL.Pipe) and (nm not in wn2.link_name_list or wn2.get_link(nm) is not req):
                out.append('control %s refers to pipe %s which is no longer in the model' % (cn, nm))
            if isinstance(req, EL.Junction) and (nm not in wn2.node_name_list or wn2.get_node(nm) is not req):
                out.append('control %s refers to junction %s which is no longer in the model' % (cn, nm))
    for pn in cfg.get('exclude_pipes', []):
        if pn not in wn2.link_name_list:
            out.append('excluded pipe %s removed' % pn)
    for jn in cfg.get('exclude_juncs', []):
        if jn not in wn2.node_name_list:
            out.append('excluded junction %s removed' % jn)
    if set(smap.keys()) != set(wn.node_name_list):
        out.append('map keys differ from the original node set')
    seen = []
    for k, lst in smap.items():
        if lst and k not in wn2.node_name_list:
            out.append('map lists nodes under removed node %s' % k)
        if k in wn2.node_name_list and k not in lst:
            out.append('retained node %s is not in its own list' % k)
        seen += list(lst)
    if sorted(seen) != sorted(wn.node_name_list):
        out.append('map is not a partition of the original nodes: %r' % sorted(seen))
    return out


def check_skel(rep, cfg):
    tag = cfg['name']
    undo = [symx.install_shims(MS, ('int', 'float', 'isinstance')), symx.install_shims(EL, ('int', 'float', 'isinstance', 'np')),
            symx.install_shims(wntr.network.model, ('int', 'float', 'isinstance'))]
    saved = (MS.WNTRSimulator, MS.EpanetSimulator)
    MS.WNTRSimulator = MS.EpanetSimulator = _FakeSim
    try:
        def harness(c):
            V = SymVars(c)
            wn, info, thr = build_skel(V, cfg)
            before = [total_demand(wn, t) for t in range(0, 6 * 3600, 3600)]
            wn2, smap = run_skel(wn, cfg, thr)
            after = [total_demand(wn2, t) for t in range(0, 6 * 3600, 3600)]
            # per-node: demand at a retained node == sum of the demands of the nodes mapped to it
            per = []
            for k, lst in smap.items():
                if k in wn2.junction_name_list:
                    for t in (0, 3600, 7200):
                        lhs = wn2.get_node(k).demand_timeseries_list.at(t)
                        rhs = 0.0
                        for o in lst:
                            if o in wn.junction_name_list:
                                rhs = rhs + wn.get_node(o).demand_timeseries_list.at(t)
                        per.append((k, t, lhs, rhs))
            return V, wn, wn2, smap, before, after, per
        n = 0
        failed = set()
        for path in symx.explore(harness, max_paths=3000, timeout_s=400 if rep.tier == 'quick' else 1800):
            n += 1
            cons = path.constraints()
            if path.exc is not None:
                m_ = symx.satisfiable(cons)
                inp = {str(d): symx.model_value(m_.model, d()) for d in m_.model.decls() if d.arity() == 0 and not str(d).startswith(('sqrt', 'tok', 'choice', 'pow'))}
                rep.counterexample('skel/%s/raised' % tag, dict(inp, cfg=cfg, why='%s: %s' % (type(path.exc).__name__, path.exc)), 'skel')
                break
            V, wn, wn2, smap, before, after, per = path.value
            wit = lambda mdl, V=V: V.witness(mdl, cfg=cfg)
            sf = structure_failures(wn, wn2, smap, cfg)
            if sf and 'structure' not in failed:
                failed.add('structure')
                m_ = symx.satisfiable(cons)
                rep.counterexample('skel/%s/structure' % tag, dict(V.witness(m_.model, cfg=cfg), why='; '.join(sf[:3])), 'skel')
            elif not sf:
                rep.discharged('skel/%s/structure/path%d' % (tag, n), sample={'retained_junctions': wn2.junction_name_list, 'map': {k: v for k, v in smap.items() if v}})
            if 'demand' not in failed:
                claim = z3.And(*[real(a) == real(b) for a, b in zip(before, after)])
                if not rep.prove('skel/%s/total-demand/path%d' % (tag, n), cons, claim, wit, 'skel', sample='sum of junction demands at t = 0..5 h equal before and after'):
                    failed.add('demand')
            if 'map-demand' not in failed and per:
                claim = z3.And(*[real(l) == real(r) for _, _, l, r in per])
                if not rep.prove('skel/%s/map-demand/path%d' % (tag, n), cons, claim, wit, 'skel', sample='demand at each retained junction == sum over the nodes mapped to it'):
                    failed.add('map-demand')
        rep.extra['skel_paths_' + tag] = n
        if path.exc is None:
            rep.reach('skel/' + tag, cons)
    finally:
        MS.WNTRSimulator, MS.EpanetSimulator = saved
        for u in undo:
            u()


def replay_skel(i):
    cfg = i['cfg']
    V = ConcVars(i)
    wn, info, thr = build_skel(V, cfg)
    saved = (MS.WNTRSimulator, MS.EpanetSimulator)
    MS.WNTRSimulator = MS.EpanetSimulator = _FakeSim   # the concrete template need not be hydraulically solvable
    try:
        try:
            wn2, smap = run_skel(wn, cfg, thr)
        except Exception as ex:
            return 'skeletonize raised %s: %s' % (type(ex).__name__, ex)
    finally:
        MS.WNTRSimulator, MS.EpanetSimulator = saved
    sf = structure_failures(wn, wn2, smap, cfg)
    if sf:
        return '; '.join(sf[:3])
    for t in range(0, 6 * 3600, 3600):
        a, b = total_demand(wn, t), total_demand(wn2, t)
        if not close(a, b, 1e-9, 1e-9):
            return 'total demand at t=%d changes from %r to %r' % (t, a, b)
    for k, lst in smap.items():
        if k in wn2.junction_name_list:
            for t in (0, 3600, 7200):
                lhs = wn2.get_node(k).demand_timeseries_list.at(t)
                rhs = sum(wn.get_node(o).demand_timeseries_list.at(t) for o in lst if o in wn.junction_name_list)
                if not close(lhs, rhs, 1e-9, 1e-9):
                    return 'junction %s carries %r at t=%d but the nodes mapped to it (%r) had %r' % (k, lhs, t, lst, rhs)
    return None


# ------------------------------------------------------------------------------------------------
def run(rep, only=None):
    rep.explanation = ('The real split_pipe / break_pipe / skeletonize run on models whose numeric attributes (length, diameter, roughness, minor loss, elevations, coordinates, '
                       'split fraction; base demands, pattern multipliers, diameters, threshold) are z3 proxies; every feasible path is explored and z3 decides the length, '
                       'position, neutrality, unchanged-rest and demand-conservation identities for all values; discrete structure (retained elements, map partition) is '
                       'checked on every explored path.')
    rep.encode(ML._split_or_break_pipe, ML.split_pipe, ML.break_pipe, MS._Skeletonize.branch_trim, MS._Skeletonize.series_pipe_merge, MS._Skeletonize.parallel_pipe_merge,
               MS._Skeletonize.run, MS._Skeletonize.__init__, MS.skeletonize)
    rep.stub('int/float/isinstance shims in wntr.morph.link, wntr.morph.skel, wntr.network.elements, wntr.network.model')
    rep.stub('wntr.morph.skel.WNTRSimulator/EpanetSimulator -> stub returning zero heads (the head losses skeletonize computes are never used in its decisions)')
    rep.bound('split/break: one pipe in 4 end-node contexts x {split, break} x either end x copy/in-place x CV x closed x polyline with 2 vertices (vertex coordinates concrete, s symbolic); '
              'L, d, C, K, elevations, end coordinates, s in [0,1]: any real in range')
    rep.bound('skeletonize: one 12-node template; 2 patterns (lengths 2, 3), all base demands and multipliers symbolic; up to 3 pipe diameters and the threshold symbolic; option sets listed')
    rep.assume('hydraulic neutrality of split is decided at model level: H-W resistance is linear in length (C02), so equal d, C and L1 + L2 = L give the same series head loss; '
               'simulation-before/after comparisons are outside')
    tasks = [('split-' + cfg_tag(cfg), check_split, (cfg,)) for cfg in SPLIT_CFGS]
    tasks += [('skel-' + cfg['name'], check_skel, (cfg,)) for cfg in SKEL_CFGS]
    run_parallel(rep, tasks)

"""C06  Tank volumes integrate their net inflow and stay within their limits.

unit/*    the real update_tank_heads on an arbitrary pre-state (symbolic previous head, net inflow, elapsed time,
          diameter; volume-curve tank with symbolic level): new head == old head + q dt / A, resp. V(new) - V(old) == q dt
          through the curve; Tank.get_volume == pi/4 D^2 level resp. the curve.
system/*  the REAL run_sim (vf.ctrlplane, vf.tankkit) with symbolic initial level and level limits and the tank's net
          inflow at every solve forked from a signed set: between consecutive records
              level[k+1] - level[k] == demand[k] (t[k+1] - t[k]) / A            (cylinder; volume curve: via V)
              level[0] == init_level
              min - 2|q|/A <= level <= max + 2|q|/A        (q = the flow of the step that led there)
              level <= min  =>  demand >= 0 ;  level >= max  =>  demand <= 0
          including the partial steps the internal tank controls insert at the limits.
"""
import math
import z3
import numpy as np

import wntr
from wntr.sim import hydraulics
import wntr.sim.core as core
from wntr.network import elements as EL

from .. import symx, ctrlplane, tankkit
from ..symx import Sym, real, rv, zabs
from ..harness import SymVars, ConcVars, close
from ..report import guarded, run_parallel

A = tankkit.AREA


# ------------------------------------------------------------------------------------------------
def check_unit(rep):
    undo = [symx.install_shims(hydraulics, ('math', 'np', 'isinstance')), symx.install_shims(EL, ('int', 'float', 'isinstance', 'np', 'math'))]
    try:
        for variant in ('cylinder', 'curve', 'curve-moved'):
            def harness(c):
                V = SymVars(c)
                wn = wntr.network.WaterNetworkModel()
                wn.add_tank('T', elevation=3.0, init_level=5.0, min_level=0.0, max_level=20.0, diameter=10.0)
                t = wn.get_node('T')
                h0 = V.real('prev_head', 3.5, 22)
                q = V.real('q', -1, 1)
                dt = V.choice('dt', [1, 900, 3600]) if variant != 'cylinder' else V.int('dt', 0, 86400)
                wn._prev_sim_time = V.int('t0', 0, 10 * 86400)
                wn.sim_time = wn._prev_sim_time + dt
                t._prev_head = h0
                t._head = h0 if variant != 'curve-moved' else V.real('head_now', 3.5, 22)
                t._demand = q
                # the reported tank demand already is the net inflow (links in - links out - leak); the leak rate is stored next to it
                t._leak_demand = V.real('leak_rate', 0, 1)
                pts = None
                if variant == 'cylinder':
                    t._diameter = V.pos('D', 0.5, 100)
                else:
                    pts = [(0.0, 0.0), (4.0, 100.0), (20.0, 1700.0)]
                    wn.add_curve('VC', 'VOLUME', pts)
                    t.vol_curve_name = 'VC'
                hydraulics.update_tank_heads(wn)
                vol = t.get_volume(V.real('some_level', 0, 20))
                return V, t, h0, q, dt, pts, vol
            n = 0
            for path in symx.explore(harness, max_paths=200):
                if path.exc is not None:
                    raise path.exc
                n += 1
                V, t, h0, q, dt, pts, vol = path.value
                cons = path.constraints()
                wit = lambda mdl, V=V: V.witness(mdl, variant=variant)
                new = real(t._head)
                lev = real(V.names['some_level'])
                if variant == 'cylinder':
                    D = real(t._diameter)
                    rep.prove('unit/%s/euler/path%d' % (variant, n), cons, (new - real(h0)) * rv(math.pi) * D * D == 4 * real(q) * real(dt), wit, 'unit',
                              sample='(head_new - head_prev) pi D^2 / 4 == q dt')
                    rep.prove('unit/%s/volume/path%d' % (variant, n), cons, real(vol) * 4 == rv(math.pi) * D * D * lev, wit, 'unit', sample='get_volume(level) == pi/4 D^2 level')
                else:
                    Vf = lambda lv: real(symx.sym_interp(Sym(lv), [p[0] for p in pts], [p[1] for p in pts]))
                    old_level, new_level = real(h0) - 3, new - 3
                    inside = z3.And(Vf(old_level) + real(q) * real(dt) >= 0, Vf(old_level) + real(q) * real(dt) <= 1700)
                    rep.prove('unit/%s/euler/path%d' % (variant, n), cons + [inside], zabs(Vf(new_level) - Vf(old_level) - real(q) * real(dt)) <= rv(1e-9) * (1 + zabs(real(q) * real(dt))), wit, 'unit',
                              sample='V(level_new) - V(level_prev) == q dt through the volume curve (while inside the curve)')
                    rep.prove('unit/%s/volume/path%d' % (variant, n), cons, real(vol) == Vf(lev), wit, 'unit', sample='get_volume(level) == curve(level)')
            rep.reach('unit/' + variant, cons)
    finally:
        for u in undo:
            u()


def replay_unit(i):
    variant = i['variant']
    wn = wntr.network.WaterNetworkModel()
    wn.add_tank('T', elevation=3.0, init_level=5.0, min_level=0.0, max_level=20.0, diameter=10.0)
    t = wn.get_node('T')
    dt = i['choice:dt'] if 'choice:dt' in i else i['dt']
    wn._prev_sim_time = i['t0']
    wn.sim_time = i['t0'] + dt
    t._prev_head = i['prev_head']
    t._head = i.get('head_now', i['prev_head'])
    t._demand = i['q']
    t._leak_demand = i.get('leak_rate', 0.0)
    pts = [(0.0, 0.0), (4.0, 100.0), (20.0, 1700.0)]
    if variant == 'cylinder':
        t.diameter = i['D']
    else:
        wn.add_curve('VC', 'VOLUME', pts)
        t.vol_curve_name = 'VC'
    hydraulics.update_tank_heads(wn)
    if variant == 'cylinder':
        exp = i['prev_head'] + i['q'] * dt / (math.pi / 4 * i['D'] ** 2)
        if not close(t._head, exp, 1e-9, 1e-9):
            return 'update_tank_heads: head %r, expected prev + q dt / A = %r' % (t._head, exp)
        v = t.get_volume(i['some_level'])
        if not close(v, math.pi / 4 * i['D'] ** 2 * i['some_level'], 1e-9, 1e-9):
            return 'get_volume(%r) = %r' % (i['some_level'], v)
        return None
    Vf = lambda lv: float(np.interp(lv, [p[0] for p in pts], [p[1] for p in pts]))
    old, new = i['prev_head'] - 3, t._head - 3
    tgt = Vf(old) + i['q'] * dt
    if 0 <= tgt <= 1700 and not close(Vf(new) - Vf(old), i['q'] * dt, 1e-7, 1e-7):
        return 'volume-curve tank: V(new)-V(old) = %r but q dt = %r (prev level %r, new level %r)' % (Vf(new) - Vf(old), i['q'] * dt, old, new)
    if not close(t.get_volume(i['some_level']), Vf(i['some_level']), 1e-9, 1e-9):
        return 'get_volume(%r) = %r, curve gives %r' % (i['some_level'], t.get_volume(i['some_level']), Vf(i['some_level']))
    return None


# ------------------------------------------------------------------------------------------------
SYS_QUICK = [
    dict(name='fill', H=3600, dur=2 * 3600, qset=[0.02, 0.0], tank_link='pipe_in'),
    dict(name='drain', H=3600, dur=2 * 3600, qset=[-0.02, 0.0], tank_link='pipe_in'),
    dict(name='mixed-out', H=3600, dur=2 * 3600, qset=[-0.03, 0.03], tank_link='pipe_out'),
    dict(name='fill-cv', H=1800, dur=3600, qset=[0.05, -0.05], tank_link='pipe_in', second_link=True),
]
SYS_QUICK += [
    dict(name='fill-cv-in', H=3600, dur=2 * 3600, qset=[0.02, 0.0], tank_link='pipe_in', p2_cv=True),          # check-valve pipe feeding the tank
    dict(name='drain+user-control', H=3600, dur=2 * 3600, qset=[-0.02], tank_link='pipe_in', time_control=True),
    dict(name='volcurve-rerun', H=3600, dur=3600, qset=[0.02, -0.02], tank_link='pipe_in', vol_curve=True, rerun_with_edited_curve=True),
]
SYS_QUICK += [
    # rule grid finer than, and not dividing, the hydraulic step (the loop visits every rule instant inside a step)
    dict(name='fill-rule-grid-off', H=900, R=360, dur=1800, qset=[0.02, -0.01], tank_link='pipe_in'),
]
SYS_THOROUGH = SYS_QUICK + [
    dict(name='mixed3', H=3600, dur=3 * 3600, qset=[-0.03, 0.0, 0.03], tank_link='pipe_in'),
    dict(name='drain-grid', H=1800, dur=2 * 3600, qset=[-0.04, 0.0], tank_link='pipe_out', report=3600),
]


def check_system(rep, cfg):
    tag = cfg['name']
    plane = ctrlplane.Plane(None)
    with ctrlplane.installed(plane), tankkit.backtrack_lemma():
        def harness(c):
            V = SymVars(c)
            c.assume_fractional_floors = True
            c.resolve_quotients = True
            wn, x = tankkit.build(V, cfg)
            plane.policy = tankkit.make_policy(cfg, V.choice)
            c.clock = wn
            res = plane.run(wn)
            x['curve'] = list(wn.get_curve('VC').points) if cfg.get('vol_curve') else None
            if cfg.get('rerun_with_edited_curve'):
                # second life of the same model in the same process: the volume curve is edited (same number of points), the model reset, and run again
                wn.get_curve('VC').points = [(lv, 2.0 * vol) for lv, vol in wn.get_curve('VC').points]
                x['curve'] = list(wn.get_curve('VC').points)
                wn.reset_initial_values()
                plane.policy = tankkit.make_policy(cfg, lambda nm, opts: V.choice('second_' + nm, opts))
                res = plane.run(wn)
            return V, x, res
        n = 0
        failed = set()
        for path in symx.explore(harness, max_paths=6000, timeout_s=420 if rep.tier == 'quick' else 2400, feas_timeout_ms=20000):
            n += 1
            cons = path.constraints()
            if path.exc is not None:
                m_ = symx.satisfiable(cons)
                rep.counterexample('system/%s/raised' % tag, dict(_inputs(m_.model, path), cfg=cfg, why='%s: %s' % (type(path.exc).__name__, path.exc)), 'system')
                break
            V, x, res = path.value
            times, lv, dm = tankkit.tank_series(res)
            T = [real(t) for t in times]
            L = [real(v) for v in lv]
            D = [real(v) for v in dm]
            wit = lambda mdl, V=V: V.witness(mdl, cfg=cfg)
            mn, mx, init = real(x['min']), real(x['max']), real(x['init'])
            claims = []
            on_grid = not isinstance(cfg.get('report', 'ALL'), str)
            claims.append(('initial-level', L[0] == init))
            if not on_grid:
                if x.get('curve'):
                    Vol = lambda lv: real(symx.sym_interp(Sym(lv), [p_[0] for p_ in x['curve']], [p_[1] for p_ in x['curve']]))
                else:
                    Vol = lambda lv: lv * rv(A)
                claims.append(('integration', z3.And(*[zabs(Vol(L[k + 1]) - Vol(L[k]) - D[k] * (T[k + 1] - T[k])) <= rv(1e-9) * (1 + zabs(D[k] * (T[k + 1] - T[k]))) for k in range(len(T) - 1)])))
            lim = []
            qmax = rv(max(abs(q) for q in cfg['qset']))
            run_max = rv(0)
            for k in range(len(T)):
                if k > 0:
                    run_max = z3.If(zabs(D[k - 1]) > run_max, zabs(D[k - 1]), run_max)   # largest tank flow seen so far
                slack = 2 * (run_max if not on_grid else qmax) / rv(25.0 if x.get('curve') else A) + rv(1e-9)
                lim.append(z3.And(L[k] >= mn - slack, L[k] <= mx + slack))
            claims.append(('within-limits', z3.And(*lim)))
            claims.append(('no-discharge-at-min', z3.And(*[z3.Implies(L[k] <= mn, D[k] >= 0) for k in range(len(T))])))
            claims.append(('no-fill-at-max', z3.And(*[z3.Implies(L[k] >= mx, D[k] <= 0) for k in range(len(T))])))
            for name, claim in claims:
                if name in failed:
                    continue
                if not rep.prove('system/%s/%s/path%d' % (tag, name, n), cons, claim, wit, 'system', sample='%s over %d records' % (name, len(T))):
                    failed.add(name)
            if len(failed) >= 3:
                break
        rep.extra['system_paths_' + tag] = n
        if path.exc is None and not failed:
            rep.reach('system/' + tag, cons)


def _inputs(model, path):
    out = {}
    for d in model.decls():
        if d.arity() == 0 and not str(d).startswith(('sqrt', 'tok', 'pow')):
            try:
                out[str(d)] = symx.model_value(model, d())
            except Exception:
                pass
    for nm, v in path.choices:
        out['choice:' + nm] = v
    return out


def replay_system(i):
    """Real simulator: the stub's tank inflow sequence is realised by a demand junction hanging on the tank, whose demand
    pattern is the negated sequence (so the Newton solve has to deliver exactly these tank flows while the tank's own links
    are open; when the real code closes them the flow is zero, as in the stub)."""
    import warnings
    cfg = i['cfg']
    V = ConcVars(i)
    wn, x = tankkit.build(V, cfg)
    qs = []
    k = 0
    while 'choice:q%d' % k in i:
        qs.append(float(i['choice:q%d' % k]))
        k += 1
    with warnings.catch_warnings():
        warnings.simplefilter('ignore')
        res = _realise(wn, cfg, qs)
        if cfg.get('rerun_with_edited_curve') and not isinstance(res, str):
            msg = _judge(res, wn, cfg, x)          # the first run counts too
            if msg:
                return 'first run: ' + msg
            qs2, k = [], 0
            while 'choice:second_q%d' % k in i:
                qs2.append(float(i['choice:second_q%d' % k]))
                k += 1
            wn.get_curve('VC').points = [(lv, 2.0 * vol) for lv, vol in wn.get_curve('VC').points]
            wn.reset_initial_values()
            res = _realise(wn, cfg, qs2, pat='real2')
    if isinstance(res, str):
        return res
    return _judge(res, wn, cfg, x)


class _Both:
    """two real runs of one scenario: the forced-inflow one up to where its controls started flipping, and the one with a return path"""
    def __init__(self, first, second):
        self.first, self.second = first, second


def _judge(res, wn, cfg, x):
    if isinstance(res, _Both):
        return _judge(res.first, wn, cfg, x) or _judge(res.second, wn, cfg, x)
    curve = list(wn.get_curve('VC').points) if cfg.get('vol_curve') else None
    lv = res.node['pressure']['T']
    dm = res.node['demand']['T']
    times = [int(t) for t in lv.index]
    mn, mx, init = float(x['min']), float(x['max']), float(x['init'])
    if not close(lv[times[0]], init, 1e-9, 1e-9):
        return 'first reported level %r, init_level %r' % (lv[times[0]], init)
    area = None
    for a, b in zip(times[:-1], times[1:]):
        if isinstance(cfg.get('report', 'ALL'), str):
            if curve:
                Vf = lambda x_: float(np.interp(x_, [p_[0] for p_ in curve], [p_[1] for p_ in curve]))
                dv = Vf(lv[b]) - Vf(lv[a])
            else:
                dv = (lv[b] - lv[a]) * A
            if not close(dv, dm[a] * (b - a), 1e-5, 1e-6):
                return 'stored volume changes by %r m3 between t=%d and t=%d but net inflow %r x dt = %r' % (dv, a, b, dm[a], dm[a] * (b - a))
    run_max = 0.0
    for k, t in enumerate(times):
        if k:
            run_max = max(run_max, abs(dm[times[k - 1]]))
        slack = 2 * (run_max if isinstance(cfg.get('report', 'ALL'), str) else max(abs(q) for q in cfg['qset'])) / (25.0 if curve else A) + 1e-6
        if lv[t] < mn - slack or lv[t] > mx + slack:
            return 'tank level %r at t=%d outside [min %r, max %r] by more than 2 s of flow (%r)' % (lv[t], t, mn, mx, slack)
        if lv[t] <= mn and dm[t] < -1e-9:
            return 'tank at/below its minimum level (%r <= %r) still discharges %r at t=%d' % (lv[t], mn, dm[t], t)
        if lv[t] >= mx and dm[t] > 1e-9:
            return 'tank at/above its maximum level (%r >= %r) still fills %r at t=%d' % (lv[t], mx, dm[t], t)
    return None


def _realise(wn, cfg, qs, pat='real'):
    # replace the stub by hydraulics: J1 gets a demand pattern -q_k (per hydraulic step) fed from/through the tank only
    wn2 = wn
    H = cfg['H']
    nsteps = cfg['dur'] // H + 1
    # tank exchanges water only with J1 (P2); J1's other links are closed so that the tank flow equals J1's demand
    wn2.get_link('P1').initial_status = 'CLOSED'
    wn2.get_link('P1')._user_status = wntr.network.LinkStatus.Closed
    # P3 stays as the model has it (user controls may act on it); J2 simply draws nothing so that the tank flow equals J1's demand
    wn2.get_node('J2').demand_timeseries_list.clear()
    wn2.get_node('J2').add_demand(0.0, None)
    seq = (qs + [qs[-1] if qs else 0.0] * nsteps)[:max(nsteps, 1)]
    wn2.options.time.pattern_timestep = H
    wn2.add_pattern(pat, [-q for q in seq])
    j1 = wn2.get_node('J1')
    j1.demand_timeseries_list.clear()
    j1.add_demand(1.0, pat)
    import warnings as _w
    try:
        with _w.catch_warnings(record=True) as caught:
            _w.simplefilter('always')
            res = wntr.sim.WNTRSimulator(wn2).run_sim()
        if any('maximum number of trials' in str(c.message) for c in caught) and any(q > 0 for q in seq):
            # forced inflow has nowhere to go once the tank closes at its maximum level: let the surplus return to the reservoir
            # (the tank inflow is then whatever the hydraulics give; the judge only looks at what the run reports)
            wn2.get_link('P1').initial_status = 'OPEN'
            wn2.get_link('P1')._user_status = wntr.network.LinkStatus.Open
            wn2.reset_initial_values()
            res = _Both(res, wntr.sim.WNTRSimulator(wn2).run_sim())
        return res
    except Exception as ex:
        return 'run_sim raised %s: %s' % (type(ex).__name__, ex)


# ------------------------------------------------------------------------------------------------
def run(rep, only=None):
    rep.explanation = ('Unit: the real update_tank_heads / Tank.get_volume on symbolic pre-states (cylinder and volume curve; np.interp as an ite chain). System: the real run_sim '
                       'with the Newton solve stubbed; the tank inflow at each solve is forked from a signed set, initial level and limits are symbolic; all feasible paths of the '
                       'time stepping incl. the partial steps at the level limits are explored and z3 (LRA + floor) proves integration, limits and no-discharge/no-fill at the limits.')
    rep.encode(hydraulics.update_tank_heads, hydraulics.update_network_previous_values, EL.Tank.get_volume, core.WNTRSimulator._get_all_tank_controls,
               core.WNTRSimulator.run_sim, core.WNTRSimulator._compute_next_timestep_and_run_presolve_controls_and_rules, wntr.network.controls.TankLevelCondition.evaluate,
               wntr.network.controls.ValueCondition.evaluate, wntr.network.controls.RelativeCondition.evaluate)
    for s in ctrlplane.STUBS:
        rep.stub(s)
    rep.bound('system (linear variant): tank area 50 m2 concrete; per-solve tank inflow forked from the listed signed sets; init/min/max level symbolic reals with min + 0.5 <= init <= max - 0.5; '
              '<= 2 (thorough 3) hydraulic steps; templates: link ending in / starting at the tank, additional CV pipe out of the tank')
    rep.bound('unit: symbolic previous head, inflow, diameter, elapsed time (cylinder); volume curve with 3 concrete points, symbolic level and inflow, dt in {1, 900, 3600}')
    rep.assume('assume-guarantee: a symbolic TankLevelCondition backtrack b satisfies 0 <= b <= current step length (proved by C05 unit/*/backtrack + unit/*/euler)')
    rep.assume('contract H: closed links carry no flow; the head next to the tank is on the side the flow comes from')
    rep.assume('the real-valued time at which a level limit is crossed is not an exact integer number of seconds (there floor() is decided by float rounding, not by the real-arithmetic model)')
    tasks = [('unit', check_unit, ())]
    for cfg in (SYS_THOROUGH if rep.tier == 'thorough' else SYS_QUICK):
        tasks.append(('system-' + cfg['name'], check_system, (cfg,)))
    run_parallel(rep, tasks)

"""C08  Leaks discharge Cd*A*sqrt(2*g*p) only while active and only at positive pressure.

law/*     the leak row built by the real create_hydraulic_model / ModelUpdater for a leaking junction and a
          leaking tank, evaluated by the real ConditionalExpression code on symbolic head and leak rate (and, in
          the symbolic-coefficient pass, symbolic Cd and area - the real leak_poly_coeffs_param runs on proxies):
            p > 1e-4       L == Cd A sqrt(2 g p)      (sqrt encoded exactly: s >= 0, s*s == 2 g p)
            p <= 0         L == 1e-11 p               (|L| <= 1e-11 |p|)
            0 < p <= 1e-4  smoothing cubic, 0-ish <= L <= value at 1e-4; continuous at both ends
            monotone       p1 <= p2  =>  L(p1) <= L(p2) + 1e-12
          inactive leak: no leak row; the leak variable does not enter the node's balance (C01).
window/*  the REAL run_sim (vf.ctrlplane) with add_leak(start, end) for symbolic Int start/end on and off the
          hydraulic grid, on a junction and on a tank, DD and PDD: the leak is active exactly on records with
          start <= t < end, a step exists at start and at end (report 'ALL'), reported leak_demand is the model's
          leak rate while active and 0 otherwise, tank demand = net inflow - leak; after remove_leak +
          reset_initial_values nothing leaks and no leak control is left.
"""
import math
import z3

import wntr
from wntr.network.base import LinkStatus
from wntr.sim import hydraulics
from wntr.sim.models import constraint, param
from wntr.network import elements as EL

from .. import symx, amlsmt, modelkit, ctrlplane
from ..symx import Sym, real, rv, zabs
from ..harness import SymVars, ConcVars, close
from ..report import guarded, run_parallel

DELTA = 1e-4
SLOPE = 1e-11
G2 = 2.0 * 9.81


def leak_net(kind, mode, Cd, A):
    wn = modelkit.T7(mode)
    node = wn.get_node('J3' if kind == 'junction' else 'T1')
    node._leak, node._leak_status, node._leak_area, node._leak_discharge_coeff = True, True, A, Cd
    return wn, node


def check_law(rep, kind, mode, symcoef):
    tag = '%s/%s/%s' % (kind, mode, 'symcoef' if symcoef else 'coef')
    with amlsmt.installed():
        def harness(c):
            V = SymVars(c)
            Cd = V.real('Cd', 0.01, 1) if symcoef else 0.75
            A = V.real('A', 1e-6, 1) if symcoef else 0.003
            wn, node = leak_net(kind, mode, Cd, A)
            m, upd = hydraulics.create_hydraulic_model(wn)
            p = V.real('p', -1000, 1000)
            L = V.real('L', -10, 10)
            elev = node.elevation
            if kind == 'junction':
                m.head[node.name].value = p + elev
            else:
                m.source_head[node.name].value = p + elev
            m.leak_rate[node.name].value = L
            return V, Cd, A, p, L, m.leak_con[node.name].evaluate()
        paths = list(symx.explore(harness, max_paths=32))
    for pa in paths:
        if pa.exc is not None:
            raise pa.exc
    V, Cd, A, p, L, _ = paths[0].value
    base = dict(kind=kind, mode=mode, symcoef=symcoef)
    wit = lambda mdl: V.witness(mdl, **base)
    pe, Le = real(p), real(L)
    R = modelkit.piecewise(paths, lambda pa: pa.value[5])
    sides = [s for pa in paths for s in pa.side]
    pre = [pe >= -1000, pe <= 1000, Le >= -10, Le <= 10]
    if symcoef:
        pre += [real(Cd) >= rv(0.01), real(Cd) <= 1, real(A) >= rv(1e-6), real(A) <= 1]
    # form: residual = L - g(p)
    gterm = z3.simplify(-z3.substitute(R, (Le, z3.RealVal(0))))
    cons = sides + pre
    rep.prove('law/form/' + tag, cons, R == Le - gterm, wit, 'law', sample='residual == L - g(p)')
    ca = real(Cd) * real(A)
    s = z3.Real('oracle_sqrt')
    rep.prove('law/high/' + tag, cons + [pe > rv(DELTA), s >= 0, s * s == rv(G2) * pe], zabs(gterm - ca * s) <= rv(1e-9) * (ca * s), wit, 'law',
              sample='p > 1e-4: L == Cd A sqrt(2 g p)')
    rep.prove('law/low/' + tag, cons + [pe <= 0], gterm == rv(SLOPE) * pe, wit, 'law', sample='p <= 0: L == 1e-11 p')
    top = ca * rv(math.sqrt(G2 * DELTA))
    rep.prove('law/band/' + tag, cons + [pe > 0, pe <= rv(DELTA)], z3.And(gterm >= -rv(1e-12), gterm <= top * rv(1 + 1e-9)), wit, 'law',
              sample='0 < p <= 1e-4: 0 <= L <= Cd A sqrt(2 g 1e-4)')
    # continuity at 0 and delta: neighbouring branch values agree
    g0_left = z3.substitute(gterm, (pe, z3.RealVal(0)))
    eps = z3.Real('eps')
    for nm, pt in (('0', rv(0)), ('delta', rv(DELTA))):
        gl = z3.substitute(gterm, (pe, pt))
        gr = z3.substitute(gterm, (pe, pt + eps))
        sd = [z3.substitute(c_, (pe, pt + eps)) for c_ in sides]
        rep.prove('law/continuity-%s/%s' % (nm, tag), cons + sd + [eps > 0, eps <= rv(1e-9)], zabs(gr - gl) <= rv(1e-6) * (ca + rv(1e-6)),
                  lambda mdl, pt=pt: dict(V.witness(mdl, **base), at=float(z3.simplify(pt).as_fraction()), eps=symx.model_value(mdl, eps), cont=True), 'law',
                  sample='no jump at p = %s: |L(p+eps) - L(p)| small for eps <= 1e-9' % nm)
    # monotone (two-point)
    p1, p2 = z3.Real('p_a'), z3.Real('p_b')
    g1 = z3.substitute(gterm, (pe, p1))
    g2 = z3.substitute(gterm, (pe, p2))
    sd1 = symx.rename([z3.substitute(c_, (pe, p1)) for c_ in sides], '_a', keep=['Cd', 'A', 'p_a', 'p_b'])
    sd2 = symx.rename([z3.substitute(c_, (pe, p2)) for c_ in sides], '_b', keep=['Cd', 'A', 'p_a', 'p_b'])
    g1 = symx.rename([g1], '_a', keep=['Cd', 'A', 'p_a', 'p_b'])[0]
    g2 = symx.rename([g2], '_b', keep=['Cd', 'A', 'p_a', 'p_b'])[0]
    rep.prove('law/monotone/' + tag, pre + sd1 + sd2 + [p1 <= p2, p1 >= -1000, p2 <= 1000], g1 <= g2 + rv(1e-12),
              lambda mdl: dict(V.witness(mdl, **base), p_a=symx.model_value(mdl, p1), p_b=symx.model_value(mdl, p2), mono=True), 'law',
              sample='p_a <= p_b => L(p_a) <= L(p_b) + 1e-12')
    rep.reach('law/' + tag, cons + [pe > rv(DELTA), s >= 0, s * s == rv(G2) * pe])


def _g_real(kind, mode, Cd, A, ps):
    wn, node = leak_net(kind, mode, Cd, A)
    m, upd = hydraulics.create_hydraulic_model(wn)
    out = []
    m.leak_rate[node.name].value = 0.0
    for p in ps:
        if kind == 'junction':
            m.head[node.name].value = float(p) + node.elevation
        else:
            m.source_head[node.name].value = float(p) + node.elevation
        out.append(-m.leak_con[node.name].evaluate())
    return out


def replay_law(i):
    kind, mode = i['kind'], i['mode']
    Cd, A = (i['Cd'], i['A']) if i['symcoef'] else (0.75, 0.003)

    def ref(p):
        if p <= 0:
            return SLOPE * p
        return Cd * A * math.sqrt(G2 * p)
    if i.get('mono'):
        a, b = _g_real(kind, mode, Cd, A, [i['p_a'], i['p_b']])
        return 'leak decreases with pressure: L(%r)=%r > L(%r)=%r' % (i['p_a'], a, i['p_b'], b) if i['p_a'] <= i['p_b'] and a > b + 1e-12 else None
    if i.get('cont'):
        at, eps = i['at'], max(i['eps'], 1e-12)
        a, b = _g_real(kind, mode, Cd, A, [at, at + eps])
        return 'jump at p=%r: L=%r, L(p+%g)=%r' % (at, a, eps, b) if abs(a - b) > 1e-6 * (Cd * A + 1e-6) else None
    p = i['p']
    g = _g_real(kind, mode, Cd, A, [p])[0]
    if p > DELTA:
        return None if close(g, ref(p), 1e-8, 1e-15) else 'leak at p=%r is %r, Cd A sqrt(2 g p) = %r' % (p, g, ref(p))
    if p <= 0:
        return None if close(g, ref(p), 1e-8, 1e-18) else 'leak at p=%r (<= 0) is %r, expected 1e-11 p = %r' % (p, g, ref(p))
    top = Cd * A * math.sqrt(G2 * DELTA)
    return None if -1e-12 <= g <= top * (1 + 1e-8) else 'leak in the smoothing band at p=%r is %r, outside [0, %r]' % (p, g, top)


# ------------------------------------------------------------------------------------------------
LEAK_RATE = 0.0125


def build_window(V, cfg):
    wn = modelkit.T7(cfg['mode'])
    t = wn.options.time
    t.hydraulic_timestep = cfg['H']
    t.rule_timestep = cfg['H']
    t.report_timestep = cfg['report']
    t.duration = cfg['dur']
    starts, ends = {}, {}
    for k, nn in enumerate(cfg['nodes']):
        node = wn.get_node(nn)
        st = V.int('start%d' % k, 0, cfg['dur']) if cfg.get('start', 'sym') == 'sym' else cfg['start']
        en = None
        if cfg.get('end', 'sym') == 'sym':
            en = V.int('end%d' % k, 1, cfg['dur'] + cfg['H'])
        if cfg.get('user_start'):
            # the leak is started by a user control, add_leak only schedules its end
            node.add_leak(wn, 0.001, 0.75, start_time=None, end_time=(0 if en is not None else None))
            from wntr.network.controls import Control, ControlAction, SimTimeCondition, Comparison
            cnd = SimTimeCondition(wn, Comparison.eq, 0)
            cnd._threshold = st
            wn.add_control('user_start_%d' % k, Control(cnd, ControlAction(node, 'leak_status', True)))
        else:
            node.add_leak(wn, 0.001, 0.75, start_time=0, end_time=(0 if en is not None else None))
            wn.get_control(node._leak_start_control_name)._condition._threshold = st
        if en is not None:
            wn.get_control(node._leak_end_control_name)._condition._threshold = en
        starts[nn], ends[nn] = st, en
    if cfg.get('isolate'):
        from wntr.network.controls import Control, ControlAction, SimTimeCondition, Comparison
        link = wn.get_link(cfg['isolate'])
        tc = V.int('t_close', 0, cfg['dur'])
        to = V.int('t_open', 1, cfg['dur'] + cfg['H'])
        for nm, tt, val in (('iso_close', tc, LinkStatus.Closed), ('iso_open', to, LinkStatus.Open)):
            cnd = SimTimeCondition(wn, Comparison.eq, 0)
            cnd._threshold = tt
            wn.add_control(nm, Control(cnd, ControlAction(link, 'status', val)))
        starts['__iso__'], ends['__iso__'] = tc, to
    return wn, starts, ends


def _ri(x):
    t = symx.term(x)
    return z3.ToInt(t) if z3.is_real(t) else t


WIN_QUICK = [
    dict(name='junction-userstart', mode='DD', nodes=['J2'], H=3600, dur=2 * 3600, report='ALL', user_start=True),
    dict(name='isolated-leak', mode='DD', nodes=['J4'], H=3600, dur=3600, report='ALL', isolate='P5', end=None),
    dict(name='junction-DD', mode='DD', nodes=['J3'], H=3600, dur=2 * 3600, report='ALL'),
    dict(name='tank-DD', mode='DD', nodes=['T1'], H=3600, dur=2 * 3600, report='ALL'),
    dict(name='junction-PDD-grid', mode='PDD', nodes=['J2'], H=1800, dur=3600, report=1800),
    dict(name='two-leaks', mode='DD', nodes=['J3', 'T1'], H=3600, dur=3600, report='ALL'),
    dict(name='tank-noend', mode='DD', nodes=['T1'], H=3600, dur=2 * 3600, report='ALL', end=None),
]


def check_window(rep, cfg):
    tag = cfg['name']

    def leak_of(plane, wn, name):
        return LEAK_RATE
    plane = ctrlplane.Plane(ctrlplane.table_policy(lambda pl, wn, ln: 0.004, leak_of=leak_of))
    with ctrlplane.installed(plane):
        def harness(c):
            V = SymVars(c)
            wn, starts, ends = build_window(V, cfg)
            for nn in cfg['nodes']:
                if ends[nn] is not None:
                    c.assume(starts[nn] < ends[nn])
            if cfg.get('isolate'):
                c.assume(starts['__iso__'] < ends['__iso__'])
            res = plane.run(wn)
            # second life: remove the leaks, reset, run again
            for k, nn in enumerate(cfg['nodes']):
                wn.get_node(nn).remove_leak(wn)
                if cfg.get('user_start'):
                    wn.remove_control('user_start_%d' % k)    # the user's own start control goes with the leak
            left = [n for n, ctl in wn.controls() if 'leak' in n]
            wn.reset_initial_values()
            res2 = plane.run(wn)
            return V, starts, ends, res, res2, left, wn
        n = 0
        failed = set()
        for path in symx.explore(harness, max_paths=5000, timeout_s=300 if rep.tier == 'quick' else 1500):
            n += 1
            cons = path.constraints()
            if path.exc is not None:
                m_ = symx.satisfiable(cons)
                rep.counterexample('window/%s/raised' % tag, dict(cfg=cfg, why='%s: %s' % (type(path.exc).__name__, path.exc), **_ints(m_.model, cfg)), 'window')
                break
            V, starts, ends, res, res2, left, wn = path.value
            T = [_ri(t) for t in res.time]
            wit = lambda mdl, V=V: V.witness(mdl, cfg=cfg)
            claims = [('times', z3.And(T[0] == 0, *[T[k] < T[k + 1] for k in range(len(T) - 1)]))]
            for nn in cfg['nodes']:
                st, en = _ri(starts[nn]), (_ri(ends[nn]) if ends[nn] is not None else None)
                lk = ctrlplane.series(res, 'node', 'leak_demand', nn)
                active = [z3.And(st <= t, (t < en) if en is not None else z3.BoolVal(True)) for t in T]
                if cfg.get('isolate'):
                    # cut off from every source while its only feed is closed: reported leak must be zero
                    tc, to = _ri(starts['__iso__']), _ri(ends['__iso__'])
                    active = [z3.And(a, z3.Not(z3.And(tc <= t, t < to))) for a, t in zip(active, T)]
                    pr = ctrlplane.series(res, 'node', 'pressure', nn)
                    dmd = ctrlplane.series(res, 'node', 'demand', nn)
                    claims.append(('isolated-zero/' + nn, z3.And(*[z3.Implies(z3.And(tc <= t, t < to), z3.And(real(p_) == 0, real(d_) == 0)) for t, p_, d_ in zip(T, pr, dmd)])))
                claims.append(('leak-demand/' + nn, z3.And(*[real(v) == z3.If(a, rv(LEAK_RATE), rv(0)) for v, a in zip(lk, active)])))
                if isinstance(cfg['report'], str):
                    need = [z3.Implies(st <= cfg['dur'], z3.Or(*[t == st for t in T]))]
                    if en is not None:
                        need.append(z3.Implies(en <= cfg['dur'], z3.Or(*[t == en for t in T])))
                    claims.append(('steps-at-start-and-end/' + nn, z3.And(*need)))
                if nn in wn.tank_name_list:
                    dem = ctrlplane.series(res, 'node', 'demand', nn)
                    flows = {ln: ctrlplane.series(res, 'link', 'flowrate', ln) for ln in wn.link_name_list}
                    tk = []
                    for k in range(len(T)):
                        net = sum([real(flows[ln][k]) for ln, l in wn.links() if l.end_node_name == nn], rv(0)) - \
                            sum([real(flows[ln][k]) for ln, l in wn.links() if l.start_node_name == nn], rv(0))
                        tk.append(real(dem[k]) == net - real(lk[k]))
                    claims.append(('tank-demand/' + nn, z3.And(*tk)))
                lk2 = ctrlplane.series(res2, 'node', 'leak_demand', nn)
                claims.append(('removed/' + nn, z3.And(*[real(v) == 0 for v in lk2])))
            claims.append(('no-leak-controls-left', z3.BoolVal(len(left) == 0)))
            for name, claim in claims:
                if name in failed:
                    continue
                if not rep.prove('window/%s/%s/path%d' % (tag, name, n), cons, claim, wit, 'window', sample='%s over %d records' % (name, len(T))):
                    failed.add(name)
            if len(failed) >= 3:
                break
        if not failed and path.exc is None:
            rep.reach('window/' + tag, cons)
        rep.extra['window_paths_' + tag] = n


def _ints(model, cfg):
    out = {}
    for k in range(len(cfg['nodes'])):
        for nm in ('start%d' % k, 'end%d' % k):
            out[nm] = symx.model_value(model, z3.Int(nm))
    return out


def replay_window(i):
    """real simulator, real Newton solve"""
    import warnings
    cfg = i['cfg']
    V = ConcVars(i)
    try:
        wn, starts, ends = build_window(V, cfg)
    except KeyError as ex:
        return 'add_leak did not create the control it promises (%s: %s)' % (type(ex).__name__, ex)
    with warnings.catch_warnings():
        warnings.simplefilter('ignore')
        try:
            res = wntr.sim.WNTRSimulator(wn).run_sim()
        except Exception as ex:
            return 'run_sim raised %s: %s (leak windows %r-%r)' % (type(ex).__name__, ex, starts, ends)
    times = [int(t) for t in res.node['leak_demand'].index]
    if times != sorted(set(times)):
        return 'times not increasing: %r' % times
    for nn in cfg['nodes']:
        st, en = int(starts[nn]), (int(ends[nn]) if ends[nn] is not None else None)
        lk = res.node['leak_demand'][nn]
        pr = res.node['pressure'][nn]
        for t in times:
            active = st <= t and (en is None or t < en)
            if cfg.get('isolate') and int(starts['__iso__']) <= t < int(ends['__iso__']):
                if abs(lk[t]) > 1e-12 or abs(pr[t]) > 1e-12:
                    return 'junction %s is cut off from all sources at t=%d (feed closed %d-%d) but reports leak_demand=%r pressure=%r' % (nn, t, int(starts['__iso__']), int(ends['__iso__']), lk[t], pr[t])
                continue
            if active and pr[t] > DELTA and not close(lk[t], 0.75 * 0.001 * math.sqrt(G2 * pr[t]), 1e-4, 1e-9):
                return 'leak at %s active at t=%d (window %r-%r) but leak_demand=%r at pressure %r' % (nn, t, st, en, lk[t], pr[t])
            if not active and abs(lk[t]) > 1e-12:
                return 'leak at %s reports %r at t=%d outside its window %r-%r' % (nn, lk[t], t, st, en)
        if isinstance(cfg['report'], str):
            for x in (st, en):
                if x is not None and x <= cfg['dur'] and x not in times:
                    return 'no step at the leak instant %d of %s (steps %r)' % (x, nn, times)
        if nn in wn.tank_name_list:
            for t in times:
                net = sum(res.link['flowrate'][ln][t] for ln, l in wn.links() if l.end_node_name == nn) - \
                    sum(res.link['flowrate'][ln][t] for ln, l in wn.links() if l.start_node_name == nn)
                if not close(res.node['demand'][nn][t], net - lk[t], 1e-6, 1e-9):
                    return 'tank %s demand %r != net inflow %r - leak %r at t=%d' % (nn, res.node['demand'][nn][t], net, lk[t], t)
    for k, nn in enumerate(cfg['nodes']):
        wn.get_node(nn).remove_leak(wn)
        if cfg.get('user_start'):
            wn.remove_control('user_start_%d' % k)
    left = [n for n, c in wn.controls() if 'leak' in n]
    if left:
        return 'leak controls left after remove_leak: %r' % left
    wn.reset_initial_values()
    with warnings.catch_warnings():
        warnings.simplefilter('ignore')
        res2 = wntr.sim.WNTRSimulator(wn).run_sim()
    for nn in cfg['nodes']:
        if abs(res2.node['leak_demand'][nn]).max() > 1e-12:
            return 'node %s still leaks after remove_leak + reset_initial_values' % nn
    return None


# ------------------------------------------------------------------------------------------------
def run(rep, only=None):
    rep.explanation = ('Law: the leak row built by the real model builder is evaluated by the real ConditionalExpression code on symbolic head / leak rate '
                       '(and symbolic Cd, area through the real leak_poly_coeffs_param); z3 (NRA, exact square root) decides the three-piece law, continuity and '
                       'monotonicity for all pressures. Window: the real run_sim with the Newton solve stubbed runs on symbolic leak start/end times; z3 (LIA) '
                       'proves the recorded leak timeline equals [start, end).')
    rep.encode(constraint.leak_constraint.build, param.leak_poly_coeffs_param.build, param.leak_area_param.build, param.leak_coeff_param.build,
               wntr.utils.polynomial_interpolation.cubic_spline, EL.Junction.add_leak, EL.Junction.remove_leak, EL.Tank.add_leak, EL.Tank.remove_leak,
               hydraulics.store_results_in_network, wntr.network.model.WaterNetworkModel.reset_initial_values)
    for s in ctrlplane.STUBS:
        rep.stub(s)
    rep.templates.append('T7: ' + modelkit.DESCRIPTIONS['T7'])
    rep.bound('law: pressure p in [-1000, 1000] m, leak rate any; Cd, A concrete (0.75, 0.003) and symbolic Cd in [0.01, 1], A in [1e-6, 1]; junction and tank, DD and PDD')
    rep.bound('window: start in [0, duration], end in (start, duration + H], symbolic Ints; H, report, duration from listed configurations (<= 2 H); one or two leaks')
    rep.assume('window: the stub returns a constant leak rate for every node with a leak row (contract: the law part)')
    tasks = []
    for kind in ('junction', 'tank'):
        for mode in ('DD', 'PDD'):
            for sc in (False, True):
                if sc and mode == 'PDD' and rep.tier == 'quick':
                    continue
                tasks.append(('law-%s-%s-%s' % (kind, mode, sc), check_law, (kind, mode, sc)))
    for cfg in WIN_QUICK:
        tasks.append(('window-' + cfg['name'], check_window, (cfg,)))
    run_parallel(rep, tasks)

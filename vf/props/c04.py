"""C04  Time-based controls and rules act exactly at their configured instants.

unit/*    the real SimTimeCondition.evaluate / TimeOfDayCondition.evaluate on symbolic (prev, cur, threshold,
          start_clocktime): fires iff an instant lies in (prev, cur]; backtrack lands on it; range relations are
          true exactly on their interval.
system/*  the REAL WNTRSimulator.run_sim (Newton solve stubbed, vf.ctrlplane) on a small network with k time
          controls / rules whose thresholds (and start_clocktime) are symbolic: at every recorded step the
          target's status equals the reference timeline (last firing instant wins, ties by priority), a record
          exists at every firing instant (report 'ALL'), every hydraulic grid time is recorded, times increase.
"""
import z3

import wntr
from wntr.network import controls as C
from wntr.network.controls import Comparison, Control, ControlAction, SimTimeCondition, TimeOfDayCondition, Rule, ControlPriority
from wntr.network.base import LinkStatus
import wntr.sim.core as core

from .. import symx, ctrlplane
from ..symx import Sym, real, rv
from ..harness import SymVars, ConcVars
from ..report import guarded

DAY = 86400


# ------------------------------------------------------------------------------------------------
# unit level
# ------------------------------------------------------------------------------------------------
def _mk_model(V, clock):
    wn = wntr.network.WaterNetworkModel()
    prev = V.int('prev', -1, 10 * DAY)
    step = V.int('step', 1, DAY)           # cur - prev: at most one day, so at most one daily instant per step
    cur = prev + step
    wn.sim_time = cur
    wn._prev_sim_time = prev
    sc = V.int('start_clocktime', 0, DAY - 1) if clock else 0
    wn.options.time.__dict__['start_clocktime'] = sc
    return wn, prev, cur, sc


UNIT_CASES = []
for rel in ('eq', 'gt', 'ge', 'lt', 'le'):
    UNIT_CASES.append(('sim', rel, False))
UNIT_CASES.append(('sim', 'eq', 'daily'))
UNIT_CASES.append(('sim', 'eq', 'period'))
for rel in ('eq', 'gt', 'ge', 'lt', 'le'):
    UNIT_CASES.append(('clock', rel, True))
    UNIT_CASES.append(('clock', rel, False))


def _zmod(a, m):
    return a % m  # z3 Int mod with positive constant modulus = Python semantics


def unit_setup(V, kind, rel, repeat):
    wn, prev, cur, sc = _mk_model(V, kind == 'clock')
    if kind == 'sim':
        thr = V.int('threshold', 0, 3 * DAY)
        rep = False
        if repeat == 'daily':
            rep = True
        elif repeat == 'period':
            rep = V.choice('period', [3600, 5400, 7 * 3600])
        cond = SimTimeCondition(wn, Comparison[rel], thr, repeat=rep)
        first = 0
    else:
        thr = V.int('threshold', 0, DAY - 1)
        first = 0 if repeat else V.choice('first_day', [0, 2])
        cond = TimeOfDayCondition(wn, Comparison[rel], thr, repeat=bool(repeat), first_day=first)
    return wn, cond, prev, cur, sc, thr, first


def unit_oracle(kind, rel, repeat, cond, prev, cur, sc, thr, first):
    """(fires, instant) as polymorphic expressions; for range relations `instant` is None.
    returns dict(must_true=..., must_false=..., instant=...) of z3 Bool terms / Int term"""
    P, T, TH = (real_int(prev), real_int(cur), real_int(thr))
    if kind == 'sim':
        if rel == 'eq':
            if repeat:
                per = DAY if repeat == 'daily' else cond._repeat
                last = z3.If(T >= TH, T - _zmod(T - TH, per), TH)
            else:
                last = TH
            fires = z3.And(P < last, last <= T)
            return dict(must_true=fires, must_false=z3.Not(fires), instant=last)
        f = {'gt': T > TH, 'ge': T >= TH, 'lt': T < TH, 'le': T <= TH}[rel]
        return dict(must_true=f, must_false=z3.Not(f), instant=None)
    S = real_int(sc)
    Ts, Ps = T + S, P + S
    if repeat:
        clock = _zmod(Ts, DAY)
        if rel == 'eq':
            last = Ts - _zmod(Ts - TH, DAY)
            fires = last > Ps
            return dict(must_true=fires, must_false=z3.Not(fires), instant=last - S)
        # the instant at which the daily interval opens: the threshold for after / >=, midnight for before / <=; a simple control on
        # such a condition has to act there, so the backtrack must land on it when it lies inside the step
        opens = (Ts - _zmod(Ts - TH, DAY) - S) if rel in ('gt', 'ge') else (Ts - _zmod(Ts, DAY) - S)
        extra = dict(opens=opens, opens_inside=opens > P)
        if rel == 'gt':   # 'after': documented as true from the time specified until midnight; the instant itself is left open
            return dict(must_true=clock > TH, must_false=clock < TH, instant=None, **extra)
        if rel == 'ge':
            return dict(must_true=clock >= TH, must_false=clock < TH, instant=None, **extra)
        if rel == 'lt':
            return dict(must_true=clock < TH, must_false=clock > TH, instant=None, **extra)
        return dict(must_true=clock <= TH, must_false=clock > TH, instant=None, **extra)
    # a one-off clock time that is earlier than the clock at the start of the simulation means that time on the next day
    base = z3.IntVal(first * DAY) if first >= 1 else z3.If(TH < S, z3.IntVal(DAY), z3.IntVal(0))
    inst = TH + base
    before_first = Ts < base  # day < first_day: never true
    if rel == 'eq':
        fires = z3.And(Ps < inst, inst <= Ts)
        return dict(must_true=fires, must_false=z3.Not(fires), instant=inst - S)
    if rel == 'gt':
        return dict(must_true=z3.And(Ts > inst), must_false=Ts < inst, instant=None)
    if rel == 'ge':
        return dict(must_true=Ts >= inst, must_false=Ts < inst, instant=None)
    if rel == 'lt':
        return dict(must_true=z3.And(Ts < inst, z3.Not(before_first)), must_false=Ts > inst, instant=None)
    return dict(must_true=z3.And(Ts <= inst, z3.Not(before_first)), must_false=Ts > inst, instant=None)


def real_int(x):
    t = symx.term(x)
    if z3.is_real(t):
        return z3.ToInt(t)
    return t


def check_unit(rep, kind, rel, repeat):
    tag = '%s.%s.%s' % (kind, rel, {False: 'once', True: 'daily'}.get(repeat, repeat))
    undo = [symx.install_shims(C, ('int', 'float', 'isinstance', 'math', 'np'))]
    try:
        def harness(c):
            V = SymVars(c)
            wn, cond, prev, cur, sc, thr, first = unit_setup(V, kind, rel, repeat)
            res = bool(cond.evaluate())
            return V, cond, res, cond._backtrack, (prev, cur, sc, thr, first)
        n = 0
        failed = set()
        for path in symx.explore(harness, max_paths=400, timeout_s=120):
            if path.exc is not None:
                raise path.exc
            V, cond, res, back, args = path.value
            n += 1
            o = unit_oracle(kind, rel, repeat, cond, *args)
            cons = path.constraints()
            res = bool(res) if not isinstance(res, symx.SymB) else res
            wit = lambda m, V=V: V.witness(m, kind=kind, rel=rel, repeat=repeat)
            if res is True:
                if 'true' not in failed and not rep.prove('unit/%s/returns-true/path%d' % (tag, n), cons, z3.Not(o['must_false']), wit, 'unit',
                                                           sample='evaluate() == True only where the condition holds / an instant lies in (prev, cur]'):
                    failed.add('true')
                if o['instant'] is not None and 'back' not in failed:
                    if back is None:
                        rep.counterexample('unit/%s/backtrack-none' % tag, V.witness(symx.satisfiable(cons).model, kind=kind, rel=rel, repeat=repeat), 'unit')
                        failed.add('back')
                    elif not rep.prove('unit/%s/backtrack/path%d' % (tag, n), cons + [o['must_true']], real_int(args[1]) - real_int(back) == o['instant'], wit, 'unit',
                                       sample='cur - backtrack == the firing instant'):
                        failed.add('back')
                if o.get('opens') is not None and 'opens' not in failed and back is not None:
                    if not rep.prove('unit/%s/backtrack-to-interval-start/path%d' % (tag, n), cons + [o['must_true'], o['opens_inside']],
                                     real_int(args[1]) - real_int(back) == o['opens'], wit, 'unit', sample='interval opens inside the step: cur - backtrack == that instant'):
                        failed.add('opens')
            elif res is False:
                if 'false' not in failed and not rep.prove('unit/%s/returns-false/path%d' % (tag, n), cons, z3.Not(o['must_true']), wit, 'unit',
                                                            sample='evaluate() == False only where no instant lies in (prev, cur] / the condition does not hold'):
                    failed.add('false')
            else:
                raise symx.HarnessError('evaluate returned %r' % (res,))
        rep.reach('unit/' + tag, path.constraints())
    finally:
        for u in undo:
            u()


def replay_unit(i):
    kind, rel, repeat = i['kind'], i['rel'], i['repeat']
    V = ConcVars(i)
    wn, cond, prev, cur, sc, thr, first = unit_setup(V, kind, rel, repeat)
    res = bool(cond.evaluate())
    back = cond._backtrack
    # float-free oracle
    P, T, TH = int(prev), int(cur), int(thr)
    inst = None
    if kind == 'sim':
        if rel == 'eq':
            if repeat:
                per = DAY if repeat == 'daily' else int(cond._repeat)
                inst = T - (T - TH) % per if T >= TH else TH
            else:
                inst = TH
            exp = P < inst <= T
            ok = (res == exp)
        else:
            exp = {'gt': T > TH, 'ge': T >= TH, 'lt': T < TH, 'le': T <= TH}[rel]
            ok = (res == exp)
    else:
        S = int(sc)
        Ts, Ps = T + S, P + S
        if repeat:
            clock = Ts % DAY
            if rel == 'eq':
                last = Ts - (Ts - TH) % DAY
                exp = last > Ps
                inst = last - S
                ok = res == exp
            else:
                must_true = {'gt': clock > TH, 'ge': clock >= TH, 'lt': clock < TH, 'le': clock <= TH}[rel]
                must_false = {'gt': clock < TH, 'ge': clock < TH, 'lt': clock > TH, 'le': clock > TH}[rel]
                ok = not ((must_true and not res) or (must_false and res))
                exp = must_true
        else:
            base = int(first) * DAY if int(first) >= 1 else (DAY if TH < S else 0)
            ii = TH + base
            if rel == 'eq':
                exp = Ps < ii <= Ts
                inst = ii - S
                ok = res == exp
            else:
                nb = not (Ts < base)
                must_true = {'gt': Ts > ii, 'ge': Ts >= ii, 'lt': Ts < ii and nb, 'le': Ts <= ii and nb}[rel]
                must_false = {'gt': Ts < ii, 'ge': Ts < ii, 'lt': Ts > ii, 'le': Ts > ii}[rel]
                ok = not ((must_true and not res) or (must_false and res))
                exp = must_true
    if not ok:
        return '%s %s (repeat=%s) threshold=%d start_clocktime=%d prev=%d cur=%d: evaluate()=%s, expected %s' % (kind, rel, repeat, TH, int(sc), P, T, res, exp)
    if kind == 'clock' and repeat and rel != 'eq' and res and back is not None:
        S_ = int(sc)
        opens = (T + S_ - (T + S_ - TH) % DAY - S_) if rel in ('gt', 'ge') else (T + S_ - (T + S_) % DAY - S_)
        if opens > P and exp and T - int(back) != opens:
            return '%s %s daily threshold=%d start_clocktime=%d prev=%d cur=%d: the interval opens at %d inside the step but the backtrack lands on %d' % (kind, rel, TH, S_, P, T, opens, T - int(back))
    if res and inst is not None and (back is None or T - int(back) != inst):
        return '%s %s (repeat=%s) threshold=%d start_clocktime=%d prev=%d cur=%d: backtrack=%r lands on %r, instant is %d' % (
            kind, rel, repeat, TH, int(sc), P, T, back, None if back is None else T - int(back), inst)
    return None


# ------------------------------------------------------------------------------------------------
# system level
# ------------------------------------------------------------------------------------------------
def build_net(V, cfg):
    wn = wntr.network.WaterNetworkModel()
    wn.add_reservoir('R', base_head=50.0)
    wn.add_junction('J1', base_demand=0.01, elevation=0.0)
    wn.add_junction('J2', base_demand=0.01, elevation=0.0)
    wn.add_pipe('P1', 'R', 'J1')
    wn.add_pipe('P2', 'J1', 'J2')
    wn.add_pipe('P3', 'R', 'J2')
    t = wn.options.time
    t.hydraulic_timestep = cfg['H']
    t.report_timestep = cfg['report']
    t.duration = cfg['dur']
    t.rule_timestep = cfg.get('R', cfg['H'])
    sc = 0
    if cfg.get('clock'):
        sc = V.int('start_clocktime', 0, DAY - 1)
        t.__dict__['start_clocktime'] = sc
    p2 = wn.get_link('P2')
    if cfg.get('p2_initially_closed'):
        p2.initial_status = LinkStatus.Closed
        p2._user_status = LinkStatus.Closed
    ctl = []
    for k, spec in enumerate(cfg['controls']):
        kind, value = spec['kind'], spec['value']
        hi = spec.get('hi', cfg['dur'] + cfg['H'])
        thr = V.int('thr%d' % k, spec.get('lo', 0), hi)
        prio = spec.get('priority', 3)
        act = ControlAction(p2, 'status', LinkStatus(value))
        if kind == 'sim':
            cond = SimTimeCondition(wn, Comparison.eq, 0)
        else:
            cond = TimeOfDayCondition(wn, Comparison.eq, 0, repeat=True)
        cond._threshold = thr
        c = Control(cond, act, priority=ControlPriority(prio))
        wn.add_control('c%d' % k, c)
        ctl.append(dict(kind=kind, thr=thr, value=value, priority=prio))
    rules = []
    for k, spec in enumerate(cfg.get('rules', [])):
        thr = V.int('rthr%d' % k, spec.get('lo', 0), spec.get('hi', cfg['dur'] + cfg['H']))
        if spec['kind'] == 'sim':
            cond = SimTimeCondition(wn, Comparison[spec['rel']], 0)
        else:
            cond = TimeOfDayCondition(wn, Comparison[spec['rel']], 0, repeat=True)
        cond._threshold = thr
        tgt = wn.get_link(spec.get('target', 'P2'))
        then = [ControlAction(tgt, 'status', LinkStatus(spec['then']))]
        els = [ControlAction(tgt, 'status', LinkStatus(spec['else']))] if spec.get('else') is not None else None
        wn.add_control('r%d' % k, Rule(cond, then, els, priority=ControlPriority(spec.get('priority', 3))))
        rules.append(dict(spec, thr=thr))
    if rules:
        return wn, (ctl, rules), sc
    return wn, ctl, sc


def rule_true(r, sc, t):
    TH = real_int(r['thr'])
    x = t if r['kind'] == 'sim' else _zmod(t + real_int(sc), DAY)
    return {'gt': x > TH, 'ge': x >= TH, 'lt': x < TH, 'le': x <= TH}[r['rel']]


def rule_states(cfg, rules, sc, init_status):
    """reference status after the rule evaluation at k*R, k = 0 (nothing evaluated) .. dur//R"""
    R = cfg['R']
    order = sorted(range(len(rules)), key=lambda i: rules[i].get('priority', 3))
    st = [z3.IntVal(int(init_status))]
    for k in range(1, cfg['dur'] // R + 1):
        cur = st[-1]
        for i in order:
            r = rules[i]
            tr = rule_true(r, sc, z3.IntVal(k * R))
            cur = z3.If(tr, z3.IntVal(int(r['then'])), z3.IntVal(int(r['else'])) if r.get('else') is not None else cur)
        st.append(z3.simplify(cur))
    return st


def rule_claims(cfg, rules, sc, times, statuses, init_status):
    R, H = cfg['R'], cfg['H']
    T = [real_int(t) for t in times]
    st = rule_states(cfg, rules, sc, init_status)
    claims = [('times-increase', z3.And(T[0] == 0, *[T[i] < T[i + 1] for i in range(len(T) - 1)]))]
    claims.append(('grid-recorded', z3.And(*[z3.Or(*[t == k for t in T]) for k in range(0, cfg['dur'] + 1, H if isinstance(cfg['report'], str) else cfg['report'])])))
    if isinstance(cfg['report'], str):
        need = [z3.Implies(st[k] != st[k - 1], z3.Or(*[t == k * R for t in T])) for k in range(1, len(st))]
        claims.append(('change-instants-recorded', z3.And(*need)))
        claims.append(('no-spurious-records', z3.And(*[z3.Or(_zmod(t, H) == 0, _zmod(t, R) == 0) for t in T])))
    else:
        claims.append(('report-grid-only', z3.And(*[_zmod(t, cfg['report']) == 0 for t in T])))
    conj = []
    for t, s in zip(T, statuses):
        ref = st[-1]
        for k in range(len(st) - 2, -1, -1):
            ref = z3.If(t < (k + 1) * R, st[k], ref)
        conj.append(z3.IntVal(int(s)) == ref)
    claims.append(('status-timeline', z3.And(*conj)))
    return claims


def last_instant(ctl, sc, t, ndays):
    """z3 Int: the last firing instant of control `ctl` at or before sim time t, or -1"""
    TH = real_int(ctl['thr'])
    if ctl['kind'] == 'sim':
        return z3.If(TH <= t, TH, z3.IntVal(-1))
    S = real_int(sc)
    out = z3.IntVal(-1)
    for k in range(0, ndays + 1):
        inst = TH - S + k * DAY
        out = z3.If(z3.And(inst >= 0, inst <= t), inst, out)
    return out


def instants_of(c, sc, ndays):
    TH = real_int(c['thr'])
    if c['kind'] == 'sim':
        return [TH]
    return [TH - real_int(sc) + k * DAY for k in range(0, ndays + 1)]


def oracle_status(ctl, sc, t, ndays, init_status):
    """reference status at sim time t (z3 Int): the control whose last firing instant <= t is the latest wins;
    on equal instants the higher priority wins"""
    best_last, best_prio, best_val = z3.IntVal(-1), z3.IntVal(-1), z3.IntVal(int(init_status))
    for c in ctl:
        last = last_instant(c, sc, t, ndays)
        better = z3.And(last >= 0, z3.Or(last > best_last, z3.And(last == best_last, c['priority'] > best_prio)))
        best_last = z3.If(better, last, best_last)
        best_prio = z3.If(better, z3.IntVal(c['priority']), best_prio)
        best_val = z3.If(better, z3.IntVal(int(c['value'])), best_val)
    return best_val


def unambiguous(cfg, ctl, sc):
    """precondition: two controls with EQUAL priority and conflicting actions never fire at the same instant"""
    ndays = cfg['dur'] // DAY + 2
    out = []
    for a in range(len(ctl)):
        for b in range(a + 1, len(ctl)):
            if ctl[a]['priority'] == ctl[b]['priority'] and ctl[a]['value'] != ctl[b]['value']:
                for x in instants_of(ctl[a], sc, ndays):
                    for y in instants_of(ctl[b], sc, ndays):
                        out.append(x != y)
    return out


def timeline_claims(cfg, ctl, sc, times, statuses, init_status):
    """z3 claims over the recorded run; returns list of (name, claim)"""
    ndays = cfg['dur'] // DAY + 2
    claims = []
    T = [real_int(t) for t in times]
    claims.append(('times-increase', z3.And(T[0] == 0, *[T[i] < T[i + 1] for i in range(len(T) - 1)])))
    rep_all = isinstance(cfg['report'], str)
    grid = cfg['H'] if rep_all else cfg['report']
    g = [z3.Or(*[t == k for t in T]) for k in range(0, cfg['dur'] + 1, grid)]
    claims.append(('grid-recorded', z3.And(*g)))
    all_inst = [x for c in ctl for x in instants_of(c, sc, ndays)]
    if rep_all:
        # a step exists at every instant at which the reference status changes
        need = []
        for ins in all_inst:
            changes = oracle_status(ctl, sc, ins, ndays, init_status) != oracle_status(ctl, sc, ins - 1, ndays, init_status)
            need.append(z3.Implies(z3.And(ins >= 0, ins <= cfg['dur'], changes), z3.Or(*[t == ins for t in T])))
        claims.append(('change-instants-recorded', z3.And(*need)))
        extra = [z3.Or(_zmod(t, cfg['H']) == 0, *[t == x for x in all_inst]) for t in T]
        claims.append(('no-spurious-records', z3.And(*extra)))
    else:
        claims.append(('report-grid-only', z3.And(*[_zmod(t, grid) == 0 for t in T])))
    st = [z3.IntVal(int(s)) == oracle_status(ctl, sc, t, ndays, init_status) for t, s in zip(T, statuses)]
    claims.append(('status-timeline', z3.And(*st)))
    return claims


SYS_QUICK = [
    dict(name='sim2-all', H=3600, dur=2 * 3600, report='ALL', controls=[dict(kind='sim', value=0), dict(kind='sim', value=1)]),
    dict(name='sim2-prio', H=3600, dur=2 * 3600, report='ALL', controls=[dict(kind='sim', value=0, priority=5), dict(kind='sim', value=1, priority=1)]),
    dict(name='sim2-grid', H=1800, dur=2 * 3600, report=3600, controls=[dict(kind='sim', value=0), dict(kind='sim', value=1, priority=4)]),
    dict(name='clock1-all', H=21600, dur=DAY + 21600, report='ALL', clock=True, controls=[dict(kind='clock', value=0, hi=DAY - 1)]),
    dict(name='clock+sim', H=21600, dur=DAY, report='ALL', clock=True, controls=[dict(kind='clock', value=0, hi=DAY - 1), dict(kind='sim', value=1, hi=DAY)]),
]
SYS_QUICK += [
    # rule grid finer than the hydraulic grid with simple controls only: a redundant control (re-opens an open link) and a closing one inside one hydraulic step
    dict(name='sim2-rulegrid', H=3600, R=1200, dur=3600, report='ALL', controls=[dict(kind='sim', value=1), dict(kind='sim', value=0)]),
    dict(name='control+rule-finer-grid', H=3600, R=900, dur=3600, report='ALL', controls=[dict(kind='sim', value=0)], rules=[dict(kind='sim', rel='ge', then=0, target='P3')]),
    dict(name='rule-sim-ge', H=3600, R=1800, dur=2 * 3600, report='ALL', controls=[], rules=[dict(kind='sim', rel='ge', then=0)]),
    dict(name='rule-sim-lt-else', H=3600, R=900, dur=3600, report='ALL', controls=[], rules=[dict(kind='sim', rel='lt', then=0, **{'else': 1})]),
    dict(name='rule-clock-ge-else', H=21600, R=10800, dur=DAY, report='ALL', clock=True, controls=[], rules=[dict(kind='clock', rel='ge', then=0, hi=DAY - 1, **{'else': 1})]),
    dict(name='rule2-prio', H=3600, R=1800, dur=2 * 3600, report=3600, controls=[], rules=[dict(kind='sim', rel='ge', then=0, priority=2), dict(kind='sim', rel='le', then=1, priority=4)]),
]
SYS_THOROUGH = SYS_QUICK + [
    dict(name='rule-R>H', H=1800, R=2700, dur=3 * 1800, report='ALL', controls=[], rules=[dict(kind='sim', rel='gt', then=0, **{'else': 1})]),
    dict(name='rule-clock-lt', H=21600, R=3600, dur=DAY, report='ALL', clock=True, controls=[], rules=[dict(kind='clock', rel='lt', then=0, hi=DAY - 1, **{'else': 1})]),
    dict(name='sim3-all', H=3600, dur=3 * 3600, report='ALL', controls=[dict(kind='sim', value=0), dict(kind='sim', value=1, priority=4), dict(kind='sim', value=0, priority=2)]),
    dict(name='sim2-all-closed0', H=900, dur=3600, report='ALL', p2_initially_closed=True, controls=[dict(kind='sim', value=1), dict(kind='sim', value=0)]),
    dict(name='clock2-all', H=21600, dur=DAY + 2 * 21600, report='ALL', clock=True, controls=[dict(kind='clock', value=0, hi=DAY - 1), dict(kind='clock', value=1, hi=DAY - 1)]),
    dict(name='clock1-grid', H=10800, dur=DAY + 10800, report=21600, clock=True, controls=[dict(kind='clock', value=0, hi=DAY - 1)]),
]


def check_system(rep, cfg):
    tag = cfg['name']
    plane = ctrlplane.Plane(ctrlplane.const_policy())
    with ctrlplane.installed(plane):
        def harness(c):
            V = SymVars(c)
            wn, ctl, sc = build_net(V, cfg)
            init = wn.get_link('P2').initial_status
            res = plane.run(wn)
            return V, ctl, sc, init, res
        n = 0
        failed = set()
        budget = 240 if rep.tier == 'quick' else 1500
        for path in symx.explore(harness, max_paths=20000, timeout_s=budget):
            n += 1
            V, cons = None, path.constraints()
            if path.exc is not None:
                # the run raised: a time control must never make run_sim fail
                V = path.ctx_vars if hasattr(path, 'ctx_vars') else None
                m = symx.satisfiable(cons)
                rep.counterexample('system/%s/raised' % tag, dict(cfg=cfg, error='%s: %s' % (type(path.exc).__name__, path.exc), **_model_inputs(m.model, cfg)), 'system')
                failed.add('raised')
                break
            V, ctl, sc, init, res = path.value
            wn_init_p3 = LinkStatus.Open
            times = res.time
            statuses = ctrlplane.series(res, 'link', 'status', 'P2')
            if isinstance(ctl, tuple) and ctl[0]:
                # simple controls on P2 and rules on P3 in one run: each target follows its own reference timeline
                cons = cons + unambiguous(cfg, ctl[0], sc)
                keep = ('times-increase', 'status-timeline', 'change-instants-recorded')
                the_claims = [('P2.' + n_, c_) for n_, c_ in timeline_claims(cfg, ctl[0], sc, times, statuses, init) if n_ in keep]
                st3 = ctrlplane.series(res, 'link', 'status', 'P3')
                the_claims += [('P3.' + n_, c_) for n_, c_ in rule_claims(cfg, ctl[1], sc, times, st3, wn_init_p3) if n_ in keep]
            elif isinstance(ctl, tuple):
                the_claims = rule_claims(cfg, ctl[1], sc, times, statuses, init)
            else:
                cons = cons + unambiguous(cfg, ctl, sc)
                the_claims = timeline_claims(cfg, ctl, sc, times, statuses, init)
            for name, claim in the_claims:
                if name in failed:
                    continue
                ok = rep.prove('system/%s/%s/path%d' % (tag, name, n), cons, claim, lambda m, V=V: V.witness(m, cfg=cfg), 'system',
                               sample='%s on a run with %d records' % (name, len(times)))
                if not ok:
                    failed.add(name)
            if len(failed) >= 3:
                break
        rep.extra['system_paths_' + tag] = n
        if not failed:
            rep.reach('system/' + tag, cons)


def _model_inputs(model, cfg):
    out = {}
    for k in range(len(cfg['controls'])):
        out['thr%d' % k] = symx.model_value(model, z3.Int('thr%d' % k))
    out['start_clocktime'] = symx.model_value(model, z3.Int('start_clocktime'))
    return out


def replay_system(i):
    """the real simulator (real Newton solve) on the concrete thresholds; reference timeline in plain Python"""
    import warnings
    cfg = i['cfg']
    V = ConcVars(i)
    wn, ctl, sc = build_net(V, cfg)
    init = int(wn.get_link('P2').initial_status)
    with warnings.catch_warnings():
        warnings.simplefilter('ignore')
        try:
            res = wntr.sim.WNTRSimulator(wn).run_sim()
        except Exception as ex:
            return 'run_sim raised %s: %s' % (type(ex).__name__, ex)
    st = res.link['status']['P2']
    times = [int(t) for t in st.index]
    ndays = cfg['dur'] // DAY + 2

    def instants(c):
        if c['kind'] == 'sim':
            return [int(c['thr'])]
        return [int(c['thr']) - int(sc) + k * DAY for k in range(0, ndays + 1) if int(c['thr']) - int(sc) + k * DAY >= 0]
    if times != sorted(set(times)) or times[0] != 0:
        return 'recorded times not strictly increasing from 0: %r' % times
    if isinstance(ctl, tuple) and ctl[0]:
        # controls on P2, rules on P3: each target against its own reference (status only; extra steps of the other kind are expected)
        st3 = res.link['status']['P3']
        R = cfg['R']
        cur, states = 1, [1]
        for k in range(1, cfg['dur'] // R + 1):
            for r in sorted(ctl[1], key=lambda r_: r_.get('priority', 3)):
                x = k * R if r['kind'] == 'sim' else (k * R + int(sc)) % DAY
                th = int(r['thr'])
                if {'gt': x > th, 'ge': x >= th, 'lt': x < th, 'le': x <= th}[r['rel']]:
                    cur = int(r['then'])
                elif r.get('else') is not None:
                    cur = int(r['else'])
            states.append(cur)
        for k in range(1, len(states)):
            if states[k] != states[k - 1] and k * R not in times:
                return 'rules change P3 to %d at the rule step %d but no hydraulic step is taken there; steps %r' % (states[k], k * R, times)
        for t in times:
            want = states[min(t // R, len(states) - 1)]
            if int(st3[t]) != want:
                return 'at t=%d P3 status is %d; the rule evaluated at the positive multiples of the rule timestep gives %d; steps %r; rule thresholds %r, control thresholds %r' % (
                    t, int(st3[t]), want, times, [int(r['thr']) for r in ctl[1]], [int(c['thr']) for c in ctl[0]])
        ctl = ctl[0]
        for t in times:
            best = (-1, -1, init)
            for c in ctl:
                l = max([x for x in instants(c) if x <= t], default=-1)
                if l >= 0 and (l, c['priority']) > best[:2]:
                    best = (l, c['priority'], int(c['value']))
            if int(st[t]) != best[2]:
                return 'at t=%d P2 status is %d, the controls command %d; steps %r' % (t, int(st[t]), best[2], times)
        return None
    if isinstance(ctl, tuple):
        return _replay_rules(cfg, ctl[1], int(sc), init, times, st)
    # ambiguous inputs (equal priority, conflicting actions, same instant) are outside the claim
    for a in range(len(ctl)):
        for b in range(a + 1, len(ctl)):
            if ctl[a]['priority'] == ctl[b]['priority'] and ctl[a]['value'] != ctl[b]['value'] and set(instants(ctl[a])) & set(instants(ctl[b])):
                return None

    def ref(t):
        best = (-1, -1, init)
        for c in ctl:
            l = max([x for x in instants(c) if x <= t], default=-1)
            if l >= 0 and (l, c['priority']) > best[:2]:
                best = (l, c['priority'], int(c['value']))
        return best[2]
    rep_all = isinstance(cfg['report'], str)
    grid = cfg['H'] if rep_all else cfg['report']
    miss = [k for k in range(0, cfg['dur'] + 1, grid) if k not in times]
    if miss:
        return 'grid times %r are not reported (reported: %r)' % (miss, times)
    desc = 'thresholds %r start_clocktime %d' % ([int(c['thr']) for c in ctl], int(sc))
    if rep_all:
        allowed = set(x for c in ctl for x in instants(c))
        for ins in sorted(allowed):
            if 0 <= ins <= cfg['dur'] and ref(ins) != ref(ins - 1) and ins not in times:
                return 'no step at the instant %d at which the target changes to %d; steps %r; %s' % (ins, ref(ins), times, desc)
        for t in times:
            if t % cfg['H'] and t not in allowed:
                return 'a step was inserted at %d, which is neither on the hydraulic grid nor a firing instant; %s' % (t, desc)
    else:
        if any(t % grid for t in times):
            return 'off-grid report times %r' % times
    for t in times:
        if int(st[t]) != ref(t):
            return 'at t=%d P2 status is %d, the controls command %d; steps %r; %s' % (t, int(st[t]), ref(t), times, desc)
    return None


def _replay_rules(cfg, rules, sc, init, times, st):
    R, H = cfg['R'], cfg['H']

    def true(r, t):
        x = t if r['kind'] == 'sim' else (t + sc) % DAY
        th = int(r['thr'])
        return {'gt': x > th, 'ge': x >= th, 'lt': x < th, 'le': x <= th}[r['rel']]
    order = sorted(range(len(rules)), key=lambda i: rules[i].get('priority', 3))
    states = [init]
    for k in range(1, cfg['dur'] // R + 1):
        cur = states[-1]
        for i in order:
            r = rules[i]
            if true(r, k * R):
                cur = int(r['then'])
            elif r.get('else') is not None:
                cur = int(r['else'])
        states.append(cur)
    desc = 'rule thresholds %r start_clocktime %d rule step %d' % ([int(r['thr']) for r in rules], sc, R)
    miss = [k for k in range(0, cfg['dur'] + 1, H if isinstance(cfg['report'], str) else cfg['report']) if k not in times]
    if miss:
        return 'grid times %r are not reported (reported: %r)' % (miss, times)
    if isinstance(cfg['report'], str):
        for k in range(1, len(states)):
            if states[k] != states[k - 1] and k * R not in times:
                return 'rules change the target to %d at the rule step %d but no hydraulic step is taken there; steps %r; %s' % (states[k], k * R, times, desc)
        for t in times:
            if t % H and t % R:
                return 'a step was inserted at %d, neither on the hydraulic nor on the rule grid; %s' % (t, desc)
    for t in times:
        ref = states[min(t // R, len(states) - 1)]
        if int(st[t]) != ref:
            return 'at t=%d P2 status is %d; rules evaluated at the positive multiples of the rule timestep give %d; steps %r; %s' % (t, int(st[t]), ref, times, desc)
    return None


# ------------------------------------------------------------------------------------------------
def run(rep, only=None):
    rep.explanation = ('Unit: the real SimTimeCondition/TimeOfDayCondition.evaluate run on symbolic Int times; z3 (LIA with mod by constants) decides '
                       'fires <=> instant in (prev, cur], backtrack lands on the instant, range relations true exactly on their interval. '
                       'System: the real WNTRSimulator.run_sim (only the Newton solve stubbed) runs on symbolic thresholds / start_clocktime; every '
                       'feasible path of the time-stepping logic is explored and z3 proves the recorded timeline equals the reference timeline.')
    rep.encode(SimTimeCondition.evaluate, TimeOfDayCondition.evaluate, core.WNTRSimulator.run_sim,
               core.WNTRSimulator._compute_next_timestep_and_run_presolve_controls_and_rules, core.WNTRSimulator._run_postsolve_controls,
               core.WNTRSimulator._get_control_managers, C.ControlChangeTracker.update, C.ControlChecker.check, C.Rule.is_control_action_required,
               C.Rule.run_control_action, C.ControlAction.run_control_action, wntr.sim.hydraulics.update_network_previous_values, wntr.sim.hydraulics.save_results)
    for s in ctrlplane.STUBS:
        rep.stub(s)
    rep.bound('unit: prev in [-1, 10 days], cur - prev in [1 s, 1 day], threshold in [0, 3 days] (sim) / [0, 86399] (clock), start_clocktime in [0, 86399]; repeat periods {1 day, 3600, 5400, 25200 s}')
    rep.bound('system: 3-pipe network, target P2; k <= 2 (quick) / 3 (thorough) controls with symbolic Int thresholds; H, report, duration from the listed configurations; duration <= 1.5 days')
    rep.assume('hydraulics irrelevant to time controls: stub returns constant flows/heads (contract H)')
    rep.assume('two controls with equal priority and conflicting actions firing at the same instant: outcome left open (the statement orders only different priorities)')
    from ..report import run_parallel
    tasks = [('unit-%s-%s-%s' % (kind, rel, repeat), check_unit, (kind, rel, repeat)) for kind, rel, repeat in UNIT_CASES]
    tasks += [('system-' + cfg['name'], check_system, (cfg,)) for cfg in (SYS_THOROUGH if rep.tier == 'thorough' else SYS_QUICK)]
    tasks.sort(key=lambda t: 0 if t[0].startswith('system') else 1)
    run_parallel(rep, tasks)
    rep.templates.append('R-P1-J1-P2-J2, R-P3-J2; controls act on P2.status')

"""C02  Every link obeys the head-flow law of its type and reported status.

The real create_hydraulic_model builds the head-loss row of every link of a template; the real expression
evaluation runs on symbolic flow / end heads (and, in the second pass, symbolic coefficients k, minor loss,
TCV resistance, power, setting).  z3 then decides, for ALL values:
  closed/*      closed (or isolated) link: residual == q        (zero flow)
  pipe/*        residual == hs - he - F(q), F(q) = sign(q) k |q|^1.852 + 1e-5 sqrt(k) q + sign(q) m q^2 ; F odd,
                F(0)=0, strictly increasing ; piecewise approximation: documented 3 pieces, continuous at +-q1,
                +-q2, odd, increasing, exact Hazen-Williams beyond q2
  headpump/*    q >= q2 (C<=1) / q >= qbar (C>1): residual == A - B q^C - (he - hs); extension continuous, non-increasing
  curve/*       get_head_curve_coefficients on symbolic 1- and 2-point curves passes through the points
                (1-point: shut-off 4/3 H, zero head at 2 Q)
  powerpump/*   residual == P - (he - hs) q 9810
  valve/*       active PRV he == setting + elev_e ; active PSV hs == setting + elev_s ; active FCV q == setting ;
                active TCV / open valves hs - he == sign(q) R q^2 (PRV/PSV: q >= 0) with R = 8 K / (9.81 pi^2 d^4)
  param/*       hw_resistance / minor_loss / tcv_resistance params == documented formulas on symbolic attributes
  status/*      _CloseCVCondition & co: no control fires on an open CV pipe => q >= -Qtol
"""
import math
import z3

import wntr
from wntr.network.base import LinkStatus
from wntr.network import elements as EL, controls as C
from wntr.sim import hydraulics
from wntr.sim.models import constraint, param, constants

from .. import symx, amlsmt, modelkit
from ..symx import Sym, real, rv, zabs
from ..harness import SymVars, ConcVars, close
from ..report import guarded, run_parallel

EPS = 1e-5
QTOL = 2.83168e-6


def _con_dict(m, link, hw):
    if isinstance(link, wntr.network.Pipe):
        return m.approx_hazen_williams_headloss if hw == 'default' else m.piecewise_hazen_williams_headloss
    if isinstance(link, EL.HeadPump):
        return m.head_pump_headloss
    if isinstance(link, EL.PowerPump):
        return m.power_pump_headloss
    return getattr(m, link.valve_type.lower() + '_headloss')


PARAM_DICTS = ('source_head', 'hw_resistance', 'minor_loss', 'tcv_resistance', 'pump_power', 'valve_setting', 'elevation')


def residual_paths(wn, ln, hw, sym_params):
    """explored branches of the residual of link ln; each path.value = (vars, residual)"""
    with amlsmt.installed():
        def harness(c):
            m, upd = hydraulics.create_hydraulic_model(wn, HW_approx=hw)
            vars_ = modelkit.symbolic_vars(c, m, params=PARAM_DICTS if sym_params else ('source_head',))
            for k, v in vars_.items():
                if k[0] in ('hw_resistance',):
                    c.assume(v > 0)
                if k[0] in ('minor_loss', 'tcv_resistance', 'pump_power', 'valve_setting'):
                    c.assume(v >= 0)
            link = wn.get_link(ln)
            con = _con_dict(m, link, hw)[ln]
            return vars_, con.evaluate(), m
        return list(symx.explore(harness, max_paths=64))


def ends(wn, vars_, ln):
    link = wn.get_link(ln)

    def h(n):
        return vars_[('head', n)] if ('head', n) in vars_ else vars_[('source_head', n)]
    return vars_[('flow', ln)], h(link.start_node_name), h(link.end_node_name)


def coef(vars_, m, kind, name):
    return vars_[(kind, name)] if (kind, name) in vars_ else getattr(m, kind)[name].value


def F_hw(q, k, mn):
    """documented default-approximation head loss; polymorphic"""
    aq = abs(q)
    core = k * aq ** 1.852 + mn * aq * aq
    sg = _sign(q)
    return sg * core + EPS * (k ** 0.5) * q


def _sign(q):
    if isinstance(q, Sym):
        return Sym(z3.If(q.e >= 0, z3.RealVal(1), z3.RealVal(-1)))
    return 1.0 if q >= 0 else -1.0


def set_status(wn, ln, status):
    link = wn.get_link(ln)
    link.initial_status = status
    link._user_status = status
    if isinstance(link, wntr.network.Valve) and status == LinkStatus.Active:
        link._internal_status = LinkStatus.Active


# ------------------------------------------------------------------------------------------------
def check_link(rep, tname, ln, status, hw, sym_params):
    wn = modelkit.TEMPLATES[tname]()
    set_status(wn, ln, LinkStatus[status])
    link = wn.get_link(ln)
    kind = link.link_type if not isinstance(link, wntr.network.Valve) else link.valve_type
    if isinstance(link, wntr.network.Pump):
        kind = 'HeadPump' if isinstance(link, EL.HeadPump) else 'PowerPump'
    tag = '%s/%s(%s)/%s/%s/%s' % (tname, ln, kind, status, hw, 'symcoef' if sym_params else 'coef')
    paths = residual_paths(wn, ln, hw, sym_params)
    for p in paths:
        if p.exc is not None:
            raise p.exc
    with symx.scratch():
        _check_link(rep, wn, tname, ln, status, hw, sym_params, link, kind, tag, paths)


def _check_link(rep, wn, tname, ln, status, hw, sym_params, link, kind, tag, paths):
    base = dict(template=tname, link=ln, status=status, hw=hw, sym=sym_params)
    vars_ = paths[0].value[0]

    def wit(mdl, vars_=vars_):
        return dict(base, **modelkit.witness_vars(mdl, vars_))
    R = modelkit.piecewise(paths, lambda p: p.value[1])
    m = paths[0].value[2]
    q, hs, he = ends(wn, vars_, ln)
    qe, hse, hee = real(q), real(hs), real(he)
    sides = [s for p in paths for s in p.side]
    pre = [c for c in paths[0].pc if _is_assume(c, vars_)]
    cons = sides + pre
    cons = cons + symx.pow_axioms([R] + cons)
    if status == 'Closed':
        rep.prove('closed/' + tag, cons, R == qe, wit, 'link', sample='closed link: residual == flow (flow forced to zero)')
        return
    if kind == 'Pipe':
        k = coef(vars_, m, 'hw_resistance', ln)
        mn = coef(vars_, m, 'minor_loss', ln)
        if hw == 'default':
            Fq = real(F_hw(q, k, mn))
            c2 = cons + _side_now() + symx.pow_axioms([R, Fq] + cons)
            rep.prove('pipe/form/' + tag, c2, eqt(sym_params, R, hse - hee - Fq, hse, hee), wit, 'link', sample='residual == hs - he - [sign(q)(k|q|^1.852 + m q^2) + 1e-5 sqrt(k) q]')
            _odd_increasing(rep, 'pipe', tag, wit, cons, lambda x: hse - hee - _subst(R, qe, x), qe)
        else:
            _piecewise_pipe(rep, tag, wit, cons, R, qe, hse, hee, k, mn, m, sym_params)
        return
    if kind == 'HeadPump':
        _head_pump(rep, tag, wit, cons, R, qe, hse, hee, link, m)
        return
    if kind == 'PowerPump':
        P = real(coef(vars_, m, 'pump_power', ln))
        rep.prove('powerpump/' + tag, cons, eqt(sym_params, R, P - (hee - hse) * qe * rv(9.81 * 1000.0), P), wit, 'link', sample='residual == P - (he - hs) q 9810')
        return
    # valves
    setting = real(coef(vars_, m, 'valve_setting', ln))
    mn = real(coef(vars_, m, 'minor_loss', ln))
    if status == 'Active':
        if kind == 'PRV':
            elev = real(coef(vars_, m, 'elevation', link.end_node_name))
            rep.prove('valve/prv-active/' + tag, cons, R == hee - setting - elev, wit, 'link', sample='active PRV: residual == he - setting - elevation(end)')
        elif kind == 'PSV':
            elev = real(coef(vars_, m, 'elevation', link.start_node_name))
            rep.prove('valve/psv-active/' + tag, cons, R == hse - setting - elev, wit, 'link', sample='active PSV: residual == hs - setting - elevation(start)')
        elif kind == 'FCV':
            rep.prove('valve/fcv-active/' + tag, cons, R == qe - setting, wit, 'link', sample='active FCV: residual == q - setting')
        elif kind == 'TCV':
            Rt = real(coef(vars_, m, 'tcv_resistance', ln))
            sg = z3.If(qe >= 0, rv(1), rv(-1))
            rep.prove('valve/tcv-active/' + tag, cons, R == sg * Rt * qe * qe - hse + hee, wit, 'link', sample='active TCV: hs - he == sign(q) R q^2')
        return
    sg = z3.If(qe >= 0, rv(1), rv(-1))
    if kind in ('PRV', 'PSV'):
        rep.prove('valve/open/' + tag, cons + [qe >= 0], R == mn * qe * qe - hse + hee, wit, 'link', sample='open %s, q >= 0: hs - he == m q^2' % kind)
    else:
        rep.prove('valve/open/' + tag, cons, R == sg * mn * qe * qe - hse + hee, wit, 'link', sample='open %s: hs - he == sign(q) m q^2' % kind)


def eqt(exact, a, b, *scale):
    """a == b exactly (symbolic coefficients) or within 1e-8 of the magnitudes involved (concrete float coefficients:
    the code folds constants in floating point, the oracle in exact rationals)"""
    if exact:
        return a == b
    mag = rv(1)
    for t in (b,) + scale:
        mag = mag + zabs(t)
    return zabs(a - b) <= rv(1e-8) * mag


def _is_assume(c, vars_):
    names = {str(v.e) for k, v in vars_.items() if k[0] in PARAM_DICTS}
    fc = symx.free_consts([c])
    return bool(fc) and all(n in names for n in fc)


def _side_now():
    c = symx.Ctx.cur
    return list(c.side) if c is not None else []


def _subst(t, a, b):
    return z3.substitute(t, (a, b))


def _odd_increasing(rep, what, tag, wit, cons, loss_of, qe, knots=()):
    """loss_of(x): head-loss term hs - he implied by residual = 0 at flow x"""
    q1, q2 = z3.Real('q_a'), z3.Real('q_b')
    L0 = loss_of(rv(0))
    La, Lb, Lneg = loss_of(q1), loss_of(q2), loss_of(-q1)
    ax = symx.pow_axioms([La, Lb, Lneg, L0] + list(knots) + cons)

    def w2(mdl):
        d = wit(mdl)
        d.update(q_a=symx.model_value(mdl, q1), q_b=symx.model_value(mdl, q2), shape=True)
        return d
    rep.prove('%s/zero/%s' % (what, tag), cons + ax, L0 == 0, w2, 'link', sample='head loss at zero flow is zero')
    rep.prove('%s/odd/%s' % (what, tag), cons + ax, Lneg == -La, w2, 'link', sample='head loss is an odd function of flow')
    slack = rv(1e-12) * (zabs(La) + zabs(Lb)) if knots else rv(0)   # the float-rounded spline coefficients meet their neighbours only to ~1e-16 relative
    rep.prove('%s/increasing/%s' % (what, tag), cons + ax + [q1 < q2], La < Lb + slack if knots else La < Lb, w2, 'link', sample='q_a < q_b => loss(q_a) < loss(q_b)')


def _piecewise_pipe(rep, tag, wit, cons, R, qe, hse, hee, k, mn, m, exact=False):
    q1c, q2c = rv(m.hw_q1), rv(m.hw_q2)
    ke, me = real(k), real(mn)
    loss = hse - hee - R   # hs - he implied by residual 0
    aq = z3.If(qe >= 0, qe, -qe)
    sg = z3.If(qe >= 0, rv(1), rv(-1))
    pw = real(Sym(aq) ** 1.852)
    ax = symx.pow_axioms([R, pw] + cons) + _side_now()
    minor = sg * me * qe * qe
    rep.prove('pipe/piecewise-high/' + tag, cons + ax + [aq > q2c], eqt(exact, loss, sg * ke * pw + minor, hse, hee), wit, 'link',
              sample='|q| > q2: loss == sign(q)(k|q|^1.852 + m q^2) (exact Hazen-Williams)')
    rep.prove('pipe/piecewise-low/' + tag, cons + ax + [aq <= q1c], eqt(exact, loss, ke * rv(m.hw_m) * qe + minor, hse, hee), wit, 'link',
              sample='|q| <= q1: loss == k*0.001*q + sign(q) m q^2')
    a, b, c_, d = rv(m.hw_a), rv(m.hw_b), rv(m.hw_c), rv(m.hw_d)
    mid = ke * (a * qe * qe * qe + sg * b * qe * qe + c_ * qe + sg * d) + minor
    rep.prove('pipe/piecewise-mid/' + tag, cons + ax + [aq > q1c, aq <= q2c], eqt(exact, loss, mid, hse, hee), wit, 'link', sample='q1 < |q| <= q2: cubic smoothing polynomial')
    # continuity at the four switching points: the cubic matches the neighbours in value
    for nm, pt, other in (('q1', q1c, ke * rv(m.hw_m) * q1c), ('q2', q2c, None)):
        cub = ke * (a * pt * pt * pt + b * pt * pt + c_ * pt + d)
        if other is None:
            val = symx.rv(math.pow(m.hw_q2, 1.852))
            other = ke * val
        rep.prove('pipe/piecewise-continuity-%s/%s' % (nm, tag), cons, zabs(cub - other) <= rv(1e-12) * ke, wit, 'link',
                  sample='cubic piece meets its neighbour at %s (|diff| <= 1e-12 k)' % nm)
    f = z3.Function('pow_%r' % 1.852, z3.RealSort(), z3.RealSort())
    if exact and rep.tier != 'thorough':
        return   # two-point monotonicity over symbolic k, m with the cubic piece takes z3 ~20 s: thorough tier only (120 s budget)
    _odd_increasing(rep, 'pipe-piecewise', tag, wit, cons, lambda x: _subst(loss, qe, x), qe, knots=[f(q1c), f(q2c)])


def _head_pump(rep, tag, wit, cons, R, qe, hse, hee, link, m):
    A, B, Cc = link.get_head_curve_coefficients()
    gain = hee - hse + R      # he - hs implied by residual 0   (residual = H(q) - he + hs)
    if Cc <= 1:
        q2 = rv(m.pump_q2)
        Hq = rv(A) - rv(B) * (qe if Cc == 1 else real(Sym(qe) ** float(Cc)))
        ax = symx.pow_axioms([R, Hq] + cons) + _side_now()
        rep.prove('headpump/curve/' + tag, cons + ax + [qe > q2], eqt(False, gain, Hq, hse, hee), wit, 'link', sample='q > q2: he - hs == A - B q^C')
        rep.prove('headpump/shutoff/' + tag, cons + ax + [qe <= rv(m.pump_q1)], eqt(False, gain, rv(A) + rv(m.pump_slope) * qe, hse, hee), wit, 'link',
                  sample='q <= 0: he - hs == A + slope*q (steep line)')
    else:
        qbar, hbar = constraint.get_pump_line_params(A, B, Cc, m)
        Hq = rv(A) - rv(B) * (qe * qe if Cc == 2 else real(Sym(qe) ** float(Cc)))
        ax = symx.pow_axioms([R, Hq] + cons) + _side_now()
        rep.prove('headpump/curve/' + tag, cons + ax + [qe > rv(qbar)], eqt(False, gain, Hq, hse, hee), wit, 'link', sample='q > qbar: he - hs == A - B q^C')
        rep.prove('headpump/line/' + tag, cons + ax + [qe <= rv(qbar)], eqt(False, gain, rv(m.pump_slope) * (qe - rv(qbar)) + rv(hbar), hse, hee), wit, 'link',
                  sample='q <= qbar: tangent line through (qbar, hbar)')
    # non-increasing in q (two-point)
    q1, q2v = z3.Real('q_a'), z3.Real('q_b')
    Ga, Gb = _subst(gain, qe, q1), _subst(gain, qe, q2v)
    ax = symx.pow_axioms([Ga, Gb] + cons)

    def w2(mdl):
        d = wit(mdl)
        d.update(q_a=symx.model_value(mdl, q1), q_b=symx.model_value(mdl, q2v), shape=True)
        return d
    rep.prove('headpump/non-increasing/' + tag, cons + ax + [q1 < q2v, q1 >= -1, q2v <= 10], Ga >= Gb - rv(1e-9), w2, 'link',
              sample='q_a < q_b => gain(q_a) >= gain(q_b) - 1e-9')


def replay_link(i):
    tname, ln, status, hw = i['template'], i['link'], i['status'], i['hw']
    wn = modelkit.TEMPLATES[tname]()
    set_status(wn, ln, LinkStatus[status])
    link = wn.get_link(ln)
    m, upd = hydraulics.create_hydraulic_model(wn, HW_approx=hw)
    for kind in PARAM_DICTS:
        if hasattr(m, kind):
            for name in getattr(m, kind):
                key = '%s_%s' % (kind, name)
                if key in i:
                    getattr(m, kind)[name].value = float(i[key])
    modelkit.assign_concrete(m, i)
    m.set_structure()
    con = _con_dict(m, link, hw)[ln]

    def hval(n):
        return float(i['head_' + n]) if ('head_' + n) in i else m.source_head[n].value

    def resid(qv):
        m.flow[ln].value = float(qv)
        return con.evaluate()
    q = float(i['flow_' + ln])
    hs, he = hval(link.start_node_name), hval(link.end_node_name)
    r = resid(q)
    sgn = 1.0 if q >= 0 else -1.0
    kind = 'Pipe' if isinstance(link, wntr.network.Pipe) else ('HeadPump' if isinstance(link, EL.HeadPump) else
                                                               'PowerPump' if isinstance(link, EL.PowerPump) else link.valve_type)
    scale = 1 + abs(hs) + abs(he)

    def bad(exp, what):
        if not close(r, exp, 1e-9, 1e-9 * scale):
            return '%s %s (%s, %s): residual %r at q=%r hs=%r he=%r, %s gives %r' % (kind, ln, status, hw, r, q, hs, he, what, exp)
        return None
    if i.get('shape'):
        qa, qb = float(i['q_a']), float(i['q_b'])
        if kind == 'Pipe':
            loss = lambda x: hs - he - resid(x)
            la, lb, l0, lna = loss(qa), loss(qb), loss(0.0), loss(-qa)
            if abs(l0) > 1e-12:
                return 'pipe %s: head loss at zero flow is %r' % (ln, l0)
            if not close(lna, -la, 1e-9, 1e-12):
                return 'pipe %s: head loss not odd: loss(%r)=%r loss(%r)=%r' % (ln, qa, la, -qa, lna)
            if qa < qb and not la < lb + 1e-15:
                return 'pipe %s: head loss not increasing: loss(%r)=%r >= loss(%r)=%r' % (ln, qa, la, qb, lb)
            return None
        gain = lambda x: he - hs + resid(x)
        if qa < qb and gain(qa) < gain(qb) - 1e-9:
            return 'head pump %s: gain increases with flow: gain(%r)=%r < gain(%r)=%r' % (ln, qa, gain(qa), qb, gain(qb))
        return None
    if status == 'Closed':
        return bad(q, 'closed link (residual = flow)')
    if kind == 'Pipe':
        k, mn = m.hw_resistance[ln].value, m.minor_loss[ln].value
        hwl = sgn * (k * abs(q) ** 1.852 + mn * q * q)
        if hw == 'default':
            return bad(hs - he - (hwl + EPS * math.sqrt(k) * q), 'Hazen-Williams + minor loss (default approximation)')
        if abs(q) > m.hw_q2:
            return bad(hs - he - hwl, 'exact Hazen-Williams + minor loss')
        if abs(q) <= m.hw_q1:
            return bad(hs - he - (k * m.hw_m * q + sgn * mn * q * q), 'linear low-flow piece')
        return bad(hs - he - (k * (m.hw_a * q ** 3 + sgn * m.hw_b * q * q + m.hw_c * q + sgn * m.hw_d) + sgn * mn * q * q), 'cubic smoothing piece')
    if kind == 'HeadPump':
        A, B, Cc = link.get_head_curve_coefficients()
        if Cc <= 1:
            if q > m.pump_q2:
                return bad(A - B * q ** Cc - he + hs, 'H = A - B q^C')
            if q <= m.pump_q1:
                return bad(m.pump_slope * q + A - he + hs, 'shut-off line')
            return None
        qbar, hbar = constraint.get_pump_line_params(A, B, Cc, m)
        if q > qbar:
            return bad(A - B * q ** Cc - he + hs, 'H = A - B q^C')
        return bad(m.pump_slope * (q - qbar) + hbar - he + hs, 'tangent line below qbar')
    if kind == 'PowerPump':
        return bad(m.pump_power[ln].value - (he - hs) * q * 9810.0, 'P = (he - hs) q 9810')
    st, mn = m.valve_setting[ln].value, m.minor_loss[ln].value
    if status == 'Active':
        if kind == 'PRV':
            return bad(he - st - m.elevation[link.end_node_name].value, 'he = setting + elevation')
        if kind == 'PSV':
            return bad(hs - st - m.elevation[link.start_node_name].value, 'hs = setting + elevation')
        if kind == 'FCV':
            return bad(q - st, 'q = setting')
        return bad(sgn * m.tcv_resistance[ln].value * q * q - hs + he, 'hs - he = sign(q) R q^2')
    if kind in ('PRV', 'PSV') and q < 0:
        return None
    return bad(sgn * mn * q * q - hs + he, 'hs - he = sign(q) m q^2')


# ------------------------------------------------------------------------------------------------
# parameters and pump-curve coefficients on symbolic attributes
# ------------------------------------------------------------------------------------------------
def check_params(rep):
    undo = [symx.install_shims(param, ('math',)), symx.install_shims(EL, ('int', 'float', 'isinstance', 'math', 'np'))]
    try:
        with amlsmt.installed():
            def harness(c):
                V = SymVars(c)
                wn = modelkit.T3()
                p = wn.get_link('PA')
                p._roughness, p._diameter, p._length, p._minor_loss = V.pos('C', 20, 200), V.pos('d', 0.01, 3), V.pos('L', 0.1, 1e5), V.real('K', 0, 100)
                v = wn.get_link('VT')
                v.diameter, v._setting, v.minor_loss = V.pos('dv', 0.01, 3), V.real('Kt', 0, 1000), V.real('Kv', 0, 100)
                v._initial_setting = V.real('Kt0', 0, 1000)      # the defining value; what a control changes is the run-time setting
                m, upd = hydraulics.create_hydraulic_model(wn)
                out = (V, p, v, m.hw_resistance['PA'].value, m.minor_loss['PA'].value, m.tcv_resistance['VT'].value, m.minor_loss['VT'].value)
                # a control changes the TCV setting in mid-run: the updater re-runs the definitions registered for (valve, 'setting')
                v._setting = V.real('Kt2', 0, 1000)
                upd.update(m, wn, v, 'setting')
                return out + (m.tcv_resistance['VT'].value, v._setting)
            for path in symx.explore(harness, max_paths=8):
                if path.exc is not None:
                    raise path.exc
                V, p, v, k, mn, rt, mv, rt2, kt2 = path.value
                cons = path.constraints()
                wit = lambda mdl, V=V: V.witness(mdl)
                v._setting = V.real('Kt', 0, 1000)
                _param_claims(rep, cons, wit, p, v, k, mn, rt, mv)
                with symx.scratch():
                    g = rv(9.81) * rv(math.pi) * rv(math.pi)
                    dv = real(v.diameter)
                    rep.prove('param/tcv_resistance/after-setting-change', cons, zabs(real(rt2) * g * dv * dv * dv * dv - 8 * real(kt2)) <= rv(1e-12) * zabs(8 * real(kt2)), wit, 'params',
                              sample='after a control changed the setting: R == 8 (current setting) / (9.81 pi^2 d^4)')
            rep.reach('param', cons)
    finally:
        for u in undo:
            u()


def _param_claims(rep, cons, wit, p, v, k, mn, rt, mv):
    with symx.scratch():
        if True:
            if True:
                Cr, d, L = real(p._roughness), real(p._diameter), real(p._length)
                pc = real(Sym(Cr) ** (-1.852))
                pd = real(Sym(d) ** (-4.871))
                ax = symx.pow_axioms([real(k), pc, pd] + cons) + _side_now()
                ref = rv(10.667) * pc * pd * L
                rep.prove('param/hw_resistance', cons + ax, zabs(real(k) - ref) <= rv(2e-5) * ref, wit, 'params',
                          sample='k == 10.667 C^-1.852 d^-4.871 L (|rel diff| <= 2e-5: the code uses 10.6668295)')
                g = rv(9.81) * rv(math.pi) * rv(math.pi)
                rep.prove('param/minor_loss(pipe)', cons, zabs(real(mn) * g * d * d * d * d - 8 * real(p._minor_loss)) <= rv(1e-12) * zabs(8 * real(p._minor_loss)), wit, 'params', sample='m == 8 K / (9.81 pi^2 d^4)')
                dv = real(v.diameter)
                rep.prove('param/tcv_resistance', cons, zabs(real(rt) * g * dv * dv * dv * dv - 8 * real(v._setting)) <= rv(1e-12) * zabs(8 * real(v._setting)), wit, 'params', sample='R == 8 setting / (9.81 pi^2 d^4)')
                rep.prove('param/minor_loss(valve)', cons, zabs(real(mv) * g * dv * dv * dv * dv - 8 * real(v.minor_loss)) <= rv(1e-12) * zabs(8 * real(v.minor_loss)), wit, 'params', sample='m == 8 K / (9.81 pi^2 d^4)')


def replay_params(i):
    wn = modelkit.T3()
    p, v = wn.get_link('PA'), wn.get_link('VT')
    p.roughness, p.diameter, p.length, p.minor_loss = i['C'], i['d'], i['L'], i['K']
    v.diameter, v.initial_setting, v.minor_loss = i['dv'], i.get('Kt0', i['Kt']), i['Kv']
    v._setting = i['Kt']
    m, upd = hydraulics.create_hydraulic_model(wn)
    g = 9.81 * math.pi ** 2
    exp = {'hw_resistance': 10.667 * i['C'] ** -1.852 * i['d'] ** -4.871 * i['L'], 'minor_loss': 8 * i['K'] / (g * i['d'] ** 4)}
    if not close(m.hw_resistance['PA'].value, exp['hw_resistance'], 2.1e-5, 0):
        return 'hw_resistance = %r, documented 10.667 C^-1.852 d^-4.871 L = %r' % (m.hw_resistance['PA'].value, exp['hw_resistance'])
    if not close(m.minor_loss['PA'].value, exp['minor_loss'], 1e-9, 1e-15):
        return 'pipe minor_loss = %r, documented %r' % (m.minor_loss['PA'].value, exp['minor_loss'])
    if not close(m.tcv_resistance['VT'].value, 8 * i['Kt'] / (g * i['dv'] ** 4), 1e-9, 1e-15):
        return 'tcv_resistance = %r, documented %r' % (m.tcv_resistance['VT'].value, 8 * i['Kt'] / (g * i['dv'] ** 4))
    if not close(m.minor_loss['VT'].value, 8 * i['Kv'] / (g * i['dv'] ** 4), 1e-9, 1e-15):
        return 'valve minor_loss = %r, documented %r' % (m.minor_loss['VT'].value, 8 * i['Kv'] / (g * i['dv'] ** 4))
    if 'Kt2' in i:
        v._setting = i['Kt2']
        upd.update(m, wn, v, 'setting')
        if not close(m.tcv_resistance['VT'].value, 8 * i['Kt2'] / (g * i['dv'] ** 4), 1e-9, 1e-15):
            return 'after the setting was changed to %r the tcv_resistance is %r, documented %r' % (i['Kt2'], m.tcv_resistance['VT'].value, 8 * i['Kt2'] / (g * i['dv'] ** 4))
    return None


def _curve_wn(points):
    wn = wntr.network.WaterNetworkModel()
    wn.add_reservoir('R', base_head=10.0)
    wn.add_junction('J', base_demand=0.01)
    wn.add_curve('PC', 'HEAD', [(0.1 * (k + 1), 30.0 - 5 * k) for k in range(len(points))])
    wn.add_pump('PU', 'R', 'J', 'HEAD', 'PC')
    wn.get_curve('PC')._points = list(points)
    return wn


def check_curve(rep):
    undo = [symx.install_shims(EL, ('int', 'float', 'isinstance', 'math', 'np'))]
    try:
        for npts in (1, 2):
            def harness(c):
                V = SymVars(c)
                pts = []
                qprev = 0
                for k in range(npts):
                    qk = V.real('Q%d' % k, 0 if npts == 2 and k == 0 else 1e-4, 10)
                    hk = V.pos('H%d' % k, 0.01, 500)
                    pts.append((qk, hk))
                if npts == 2:
                    c.assume(pts[0][0] < pts[1][0])
                    c.assume(pts[0][1] > pts[1][1])
                wn = _curve_wn(pts)
                A, B, Cc = wn.get_link('PU').get_head_curve_coefficients()
                return V, pts, A, B, Cc
            for path in symx.explore(harness, max_paths=16):
                V = None
                if path.exc is not None:
                    m_ = symx.satisfiable(path.constraints())
                    rep.counterexample('curve/%dpt/raised' % npts, dict(npts=npts, why='%s: %s' % (type(path.exc).__name__, path.exc),
                                       **{str(d): symx.model_value(m_.model, d()) for d in m_.model.decls() if d.arity() == 0}), 'curve')
                    continue
                V, pts, A, B, Cc = path.value
                cons = path.constraints()
                wit = lambda mdl, V=V: V.witness(mdl, npts=npts)

                def H(x):
                    xx = real(x)
                    return real(A) - real(B) * (xx if Cc == 1 else xx * xx)
                tolh = rv(1e-12) * (real(pts[0][1]) + real(pts[-1][1]))
                claims = [zabs(H(qk) - real(hk)) <= tolh for qk, hk in pts]
                if npts == 1:
                    claims += [zabs(H(0) * 3 - 4 * real(pts[0][1])) <= tolh, zabs(H(2 * real(pts[0][0]))) <= tolh, z3.BoolVal(Cc == 2)]
                else:
                    claims += [z3.BoolVal(Cc == 1)]
                rep.prove('curve/%dpt' % npts, cons, z3.And(*claims), wit, 'curve',
                          sample='H = A - B Q^C passes through the %d curve point(s)%s' % (npts, '; shut-off 4/3 H, zero head at 2Q' if npts == 1 else ''))
            rep.reach('curve/%dpt' % npts, cons)
    finally:
        for u in undo:
            u()


def replay_curve(i):
    npts = i['npts']
    pts = [(float(i['Q%d' % k]), float(i['H%d' % k])) for k in range(npts)]
    wn = _curve_wn(pts)
    try:
        A, B, Cc = wn.get_link('PU').get_head_curve_coefficients()
    except Exception as ex:
        return 'get_head_curve_coefficients raised %s: %s for points %r' % (type(ex).__name__, ex, pts)
    for qk, hk in pts:
        if not close(A - B * qk ** Cc, hk, 1e-9, 1e-9):
            return '%d-point curve %r: H(%r) = %r, curve point says %r (A=%r B=%r C=%r)' % (npts, pts, qk, A - B * qk ** Cc, hk, A, B, Cc)
    if npts == 1 and (not close(A, 4.0 / 3.0 * pts[0][1], 1e-9, 0) or abs(A - B * (2 * pts[0][0]) ** Cc) > 1e-9 * A):
        return 'one-point curve: shut-off head %r (expected 4/3 H = %r), head at 2Q = %r' % (A, 4.0 / 3.0 * pts[0][1], A - B * (2 * pts[0][0]) ** Cc)
    return None


# ------------------------------------------------------------------------------------------------
# internal status conditions
# ------------------------------------------------------------------------------------------------
def check_status(rep):
    undo = [symx.install_shims(C, ('int', 'float', 'isinstance', 'math', 'np', 'abs')), symx.install_shims(EL, ('int', 'float', 'isinstance'))]
    try:
        def harness(c):
            V = SymVars(c)
            wn = modelkit.T4()
            cv = wn.get_link('P2')
            s, e = wn.get_node(cv.start_node_name), wn.get_node(cv.end_node_name)
            s._head, e._head = V.real('hs', -100, 1000), V.real('he', -100, 1000)
            cv._flow = V.real('q', -10, 10)
            close_ = bool(C._CloseCVCondition(wn, cv).evaluate())
            open_ = bool(C._OpenCVCondition(wn, cv).evaluate())
            return V, cv._flow, s._head, e._head, close_, open_
        n = 0
        for path in symx.explore(harness, max_paths=64):
            if path.exc is not None:
                raise path.exc
            n += 1
            V, q, hs, he, close_, open_ = path.value
            cons = path.constraints()
            wit = lambda mdl, V=V: V.witness(mdl)
            if not close_:
                rep.prove('status/cv-stays-open/path%d' % n, cons, z3.And(real(q) >= -rv(QTOL), real(hs) - real(he) >= -rv(0.0001524)), wit, 'status',
                          sample='close condition false => q >= -Qtol and hs - he >= -Htol')
            rep.prove('status/cv-exclusive/path%d' % n, cons, z3.BoolVal(not (close_ and open_)), wit, 'status', sample='open and close conditions never both true')
        rep.reach('status/cv', cons)
    finally:
        for u in undo:
            u()


def replay_status(i):
    wn = modelkit.T4()
    cv = wn.get_link('P2')
    s, e = wn.get_node(cv.start_node_name), wn.get_node(cv.end_node_name)
    s._head, e._head, cv._flow = float(i['hs']), float(i['he']), float(i['q'])
    cl = bool(C._CloseCVCondition(wn, cv).evaluate())
    op = bool(C._OpenCVCondition(wn, cv).evaluate())
    if cl and op:
        return 'CV open and close conditions both true at q=%r hs=%r he=%r' % (cv._flow, s._head, e._head)
    if not cl and (cv._flow < -QTOL or s._head - e._head < -0.0001524):
        return 'CV pipe stays open with reverse flow/head: q=%r hs-he=%r' % (cv._flow, s._head - e._head)
    return None


# ------------------------------------------------------------------------------------------------
# after any change a control can make, the incrementally updated model must be the model a fresh build gives
def _signature(m):
    import wntr.sim.aml.aml as aml
    import wntr.sim.aml.expr as expr
    out = {}
    for attr, val in vars(m).items():
        if attr.startswith('_'):
            continue
        if isinstance(val, aml.Constraint):
            out['row:' + attr] = str(val.expr)
        elif isinstance(val, aml.ConstraintDict):
            for k, c_ in val.items():
                out['row:%s[%s]' % (attr, k)] = str(c_.expr)
        elif isinstance(val, aml.ParamDict):
            for k, p_ in val.items():
                out['param:%s[%s]' % (attr, k)] = p_.value
        elif isinstance(val, expr.Param):
            out['param:' + attr] = val.value
    return out


def _changes(V, wn, mode):
    """(label, obj, attr, setter) for every kind of change the ModelUpdater has a registration for"""
    out = []
    k = [0]

    def sym(lo, hi):
        k[0] += 1
        return V.real('new%d' % k[0], lo, hi)
    for ln, l in wn.links():
        sts = [LinkStatus.Closed, LinkStatus.Open] + ([LinkStatus.Active] if isinstance(l, EL.Valve) else [])
        for st in sts:
            out.append(('%s.status=%s' % (ln, st.name), l, 'status', lambda l=l, st=st: setattr(l, '_user_status', st)))
        out.append(('%s._is_isolated' % ln, l, '_is_isolated', lambda l=l: setattr(l, '_is_isolated', True)))
        out.append(('%s.reconnected' % ln, l, '_is_isolated', lambda l=l: setattr(l, '_is_isolated', False)))
        if isinstance(l, EL.Valve):
            out.append(('%s.setting' % ln, l, 'setting', lambda l=l: setattr(l, '_setting', sym(0.01, 100))))
            out.append(('%s.diameter' % ln, l, 'diameter', lambda l=l: setattr(l, 'diameter', sym(0.05, 2))))
            out.append(('%s.minor_loss' % ln, l, 'minor_loss', lambda l=l: setattr(l, 'minor_loss', sym(0.1, 50))))
        if isinstance(l, EL.Pipe):
            out.append(('%s.roughness' % ln, l, 'roughness', lambda l=l: setattr(l, '_roughness', sym(50, 150))))
            out.append(('%s.length' % ln, l, 'length', lambda l=l: setattr(l, '_length', sym(10, 1000))))
            out.append(('%s.diameter' % ln, l, 'diameter', lambda l=l: setattr(l, '_diameter', sym(0.05, 2))))
            out.append(('%s.minor_loss' % ln, l, 'minor_loss', lambda l=l: setattr(l, '_minor_loss', sym(0.1, 50))))
        if isinstance(l, EL.PowerPump):
            out.append(('%s.power' % ln, l, 'power', lambda l=l: setattr(l, '_base_power', sym(100, 1e5))))
    for nn, n in list(wn.junctions()) + list(wn.tanks()):
        out.append(('%s.leak_status=on' % nn, n, 'leak_status', lambda n=n: setattr(n, '_leak_status', True)))
        out.append(('%s.leak_area' % nn, n, 'leak_area', lambda n=n: setattr(n, '_leak_area', sym(1e-4, 0.1))))
        out.append(('%s.leak_discharge_coeff' % nn, n, 'leak_discharge_coeff', lambda n=n: setattr(n, '_leak_discharge_coeff', sym(0.1, 1))))
        out.append(('%s.leak_status=off' % nn, n, 'leak_status', lambda n=n: setattr(n, '_leak_status', False)))
    for nn, n in wn.junctions():
        out.append(('%s._is_isolated' % nn, n, '_is_isolated', lambda n=n: setattr(n, '_is_isolated', True)))
        out.append(('%s.reconnected' % nn, n, '_is_isolated', lambda n=n: setattr(n, '_is_isolated', False)))
        out.append(('%s.elevation' % nn, n, 'elevation', lambda n=n: setattr(n, '_elevation', sym(0, 50))))
        if mode == 'PDD':
            out.append(('%s.required_pressure' % nn, n, 'required_pressure', lambda n=n: setattr(n, '_required_pressure', 27.5)))
            out.append(('%s.minimum_pressure' % nn, n, 'minimum_pressure', lambda n=n: setattr(n, '_minimum_pressure', 2.5)))
    return out


def _with_leaks(wn):
    # every junction and tank has a (not yet active) leak, as add_leak leaves it before the start time
    for nn, n in list(wn.junctions()) + list(wn.tanks()):
        n._leak, n._leak_status, n._leak_area, n._leak_discharge_coeff = True, False, 0.002, 0.7
    return wn


def check_updates(rep, tname, mode):
    tag = '%s/%s' % (tname, mode)
    undo = [symx.install_shims(param, ('math',)), symx.install_shims(EL, ('int', 'float', 'isinstance', 'math', 'np'))]
    try:
        with amlsmt.installed():
            def harness(c):
                V = SymVars(c)
                wn = _with_leaks(modelkit.TEMPLATES[tname](mode))
                m, upd = hydraulics.create_hydraulic_model(wn)
                log = []
                for label, obj, attr, setter in _changes(V, wn, mode):
                    setter()
                    upd.update(m, wn, obj, attr)
                    fresh, _ = hydraulics.create_hydraulic_model(wn)
                    log.append((label, _signature(m), _signature(fresh)))
                return V, log
            n = 0
            bad = False
            cons = []
            for path in symx.explore(harness, max_paths=64, timeout_s=300):
                n += 1
                cons = path.constraints()
                if path.exc is not None:
                    rep.counterexample('update/%s/raised' % tag, dict(template=tname, mode=mode, why='%s: %s' % (type(path.exc).__name__, path.exc)), 'update')
                    bad = True
                    break
                V, log = path.value
                for label, a, b in log:
                    diffs, claims = [], []
                    for key in sorted(set(a) | set(b)):
                        va, vb = a.get(key, '<absent>'), b.get(key, '<absent>')
                        if isinstance(va, Sym) or isinstance(vb, Sym):
                            if isinstance(va, str) or isinstance(vb, str):
                                diffs.append('%s: %s vs %s' % (key, va, vb))
                            else:
                                claims.append(zabs(real(va) - real(vb)) <= rv(1e-9) * zabs(real(vb)) + rv(1e-12))
                        elif isinstance(va, str) or isinstance(vb, str):
                            if va != vb:
                                diffs.append('%s is %s, a fresh build has %s' % (key, str(va)[:120], str(vb)[:120]))
                        elif abs(va - vb) > 1e-9 * max(1.0, abs(vb)):
                            diffs.append('%s = %r, a fresh build has %r' % (key, va, vb))
                    if diffs:
                        rep.counterexample('update/%s/%s' % (tag, label), dict(template=tname, mode=mode, change=label, why=diffs[0]), 'update')
                        bad = True
                        break
                    if not rep.prove('update/%s/%s/path%d' % (tag, label, n), cons, z3.And(*claims) if claims else z3.BoolVal(True), lambda mdl, V=V, label=label: V.witness(mdl, template=tname, mode=mode, change=label),
                                     'update', sample='after %s the updated model equals a fresh build (%d rows / parameters, %d symbolic)' % (label, len(a), len(claims))):
                        bad = True
                        break
                if bad:
                    break
            if not bad and n:
                rep.reach('update/' + tag, cons)
    finally:
        for u in undo:
            u()


def replay_update(i):
    """plain floats: the same change sequence on the real classes (value-container evaluator is not needed: structure and parameter values only)"""
    tname, mode = i['template'], i['mode']
    vals = {k: v for k, v in i.items() if k.startswith('new')}

    class _V:
        symbolic = False

        def real(self, name, lo=None, hi=None, ne=None):
            return float(vals.get(name, (lo + hi) / 2.0))
    try:
        wn = _with_leaks(modelkit.TEMPLATES[tname](mode))
        m, upd = hydraulics.create_hydraulic_model(wn)
        for label, obj, attr, setter in _changes(_V(), wn, mode):
            setter()
            upd.update(m, wn, obj, attr)
            fresh, _ = hydraulics.create_hydraulic_model(wn)
            a, b = _signature(m), _signature(fresh)
            for key in sorted(set(a) | set(b)):
                va, vb = a.get(key, '<absent>'), b.get(key, '<absent>')
                if isinstance(va, str) or isinstance(vb, str):
                    if va != vb:
                        return 'after %s the model has %s = %s; a model built from the changed network has %s' % (label, key, str(va)[:150], str(vb)[:150])
                elif abs(va - vb) > 1e-9 * max(1.0, abs(vb)):
                    return 'after %s the parameter %s is %r; a model built from the changed network has %r' % (label, key, va, vb)
    except Exception as ex:
        return 'updating the model raised %s: %s' % (type(ex).__name__, ex)
    return None


LINKS_QUICK = [
    # template, link, statuses
    ('T2', 'P1', ('Open', 'Closed')), ('T2', 'P3', ('Open',)), ('T2', 'P5', ('Open',)),
    ('T3', 'PB', ('Open',)), ('T3', 'VT', ('Active', 'Open', 'Closed')),
    ('T4', 'P1', ('Open',)), ('T4', 'P2', ('Open', 'Closed')), ('T4', 'PU1', ('Open', 'Closed')), ('T4', 'PU2', ('Open',)),
    ('T5', 'PP', ('Open', 'Closed')), ('T5', 'VA', ('Active',)), ('T5', 'VB', ('Open',)),
    ('T6', 'PRV', ('Active', 'Open', 'Closed')), ('T6', 'PSV', ('Active', 'Open', 'Closed')), ('T6', 'FCV', ('Active', 'Open', 'Closed')), ('T6', 'TCV', ('Active', 'Open')),
]


def run(rep, only=None):
    rep.explanation = ('The real model builder and expression evaluation give the residual of every link row as a z3 term per branch on symbolic flow, end heads and '
                       '(second pass) coefficients; z3 (NRA, |q|^1.852 and other fractional powers as a strictly monotone uninterpreted function) decides form, oddness, '
                       'monotonicity, continuity and the valve/pump laws for all values. Parameter formulas and pump-curve coefficients are executed on symbolic attributes.')
    rep.encode(constraint.approx_hazen_williams_headloss_constraint.build, constraint.piecewise_hazen_williams_headloss_constraint.build,
               constraint.head_pump_headloss_constraint.build, constraint.power_pump_headloss_constraint.build, constraint.prv_headloss_constraint.build,
               constraint.psv_headloss_constraint.build, constraint.fcv_headloss_constraint.build, constraint.tcv_headloss_constraint.build,
               constraint.get_pump_poly_coefficients, constraint.get_pump_line_params, constants.hazen_williams_constants, constants.head_pump_constants,
               param.hw_resistance_param.build, param.minor_loss_param.build, param.tcv_resistance_param.build, param.valve_setting_param.build,
               EL.HeadPump.get_head_curve_coefficients, C._CloseCVCondition.evaluate, C._OpenCVCondition.evaluate)
    for s in amlsmt.STUBS:
        rep.stub(s)
    for k, d in modelkit.DESCRIPTIONS.items():
        rep.templates.append('%s: %s' % (k, d))
    rep.bound('flow and end heads: any real; coefficients: concrete template values and (symcoef pass) any k > 0, minor loss, TCV resistance, power, setting >= 0')
    rep.bound('updates: on templates T3, T5, T6 (thorough: all) x DD/PDD, after each change a control or the simulator can make (status of every link, isolation flags, valve setting / diameter / '
              'minor loss, pipe roughness / length / diameter / minor loss, pump power, leak status / area / coefficient, elevation, PDD pressures; new numeric values symbolic) and the '
              'ModelUpdater call registered for it, every row text and every parameter value equals that of a model built afresh from the changed network')
    rep.bound('fractional powers: uninterpreted strictly increasing function with pow(0)=0, pow(1)=1, exact values at concrete arguments')
    rep.bound('pump curves: 1- and 2-point symbolic; 3-point fit (scipy curve_fit) is outside: the fitted A, B, C enter as the concrete numbers the real code returns')
    rep.bound('open PRV/PSV: q >= 0 (reverse flow closes them); power pump / head pump reverse-flow branch not claimed (needs the Newton solve to select the solution branch)')
    rep.assume('floats as reals; the Newton solve drives the residual to zero (trusted)')
    tasks = []
    for tname, ln, statuses in LINKS_QUICK:
        wn = modelkit.TEMPLATES[tname]()
        is_pipe = isinstance(wn.get_link(ln), wntr.network.Pipe)
        for st in statuses:
            for hw in (('default', 'piecewise') if is_pipe and st == 'Open' else ('default',)):
                for symp in ((False, True) if rep.tier == 'thorough' or ln in ('P1', 'VT', 'PRV', 'PP', 'TCV', 'FCV', 'PSV') else (False,)):
                    if symp and isinstance(wn.get_link(ln), EL.HeadPump):
                        continue
                    tasks.append(('link-%s-%s-%s-%s-%s' % (tname, ln, st, hw, symp), check_link, (tname, ln, st, hw, symp)))
    tasks.append(('params', check_params, ()))
    tasks.append(('curve', check_curve, ()))
    tasks.append(('status', check_status, ()))
    for tname in (('T3', 'T5', 'T6') if rep.tier == 'quick' else sorted(modelkit.TEMPLATES)):
        for mode in ('DD', 'PDD'):
            tasks.append(('update-%s-%s' % (tname, mode), check_updates, (tname, mode)))
    run_parallel(rep, tasks)

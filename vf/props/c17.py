"""C17  EPANET unit conversions: exact inverses, linear, right physical constants, containers.

The real `wntr.epanet.util.to_si/from_si` (-> HydParam/QualParam._to_si/_from_si) are executed on a
symbolic value x (z3 Real); unit system, parameter, mass unit, reaction order and the Darcy-Weisbach
flag are enumerated completely (finite enums).  Per combination the solver decides
  inverse   : from_si(to_si(x)) == x  and  to_si(from_si(x)) == x          for all real x
  linear    : to_si(a*x+y) == a*to_si(x)+to_si(y)                            for all real a,x,y
  factor    : |to_si(x) - F*x| <= tol*|F*x|  with F from the oracle table    for all real x
  container : list / object ndarray / dict / DataFrame of symbolic values come back in the same
              container, same keys, each entry equal to the scalar conversion
"""
from fractions import Fraction as Fr

import numpy as np
import pandas as pd
import z3

from .. import symx
from ..symx import Sym, real
from ..report import guarded

import wntr.epanet.util as U
from wntr.epanet.util import FlowUnits, HydParam, QualParam, MassUnits, to_si, from_si

# ---- oracle: physical definitions as exact rationals (written from EPANET's unit definitions) ---
FT = Fr('0.3048')
GAL = Fr('0.003785411784')       # m3
IMPGAL = Fr('0.00454609')        # m3
ACREFT = 43560 * FT ** 3         # m3
PSI_PER_FT = Fr('0.4333')
HP = Fr('745.699872')
FLOW = {
    'CFS': FT ** 3, 'GPM': GAL / 60, 'MGD': GAL * 10 ** 6 / 86400, 'IMGD': IMPGAL * 10 ** 6 / 86400,
    'AFD': ACREFT / 86400, 'LPS': Fr(1, 1000), 'LPM': Fr(1, 60000), 'MLD': Fr(1000, 86400),
    'CMH': Fr(1, 3600), 'CMD': Fr(1, 86400), 'SI': Fr(1),
}
US = ('CFS', 'GPM', 'MGD', 'IMGD', 'AFD')
METRIC = ('LPS', 'LPM', 'MLD', 'CMH', 'CMD')
MASS = {'mg': Fr(1, 10 ** 6), 'ug': Fr(1, 10 ** 9), 'g': Fr(1, 1000), 'kg': Fr(1)}
SQRT = object()


def oracle_factor(unit, param, mass='mg', order=0, dw=False):
    """(factor, square) : to_si factor F; if square is not None then F*F == square and F > 0
    (used for the square root in the emitter coefficient).  tol = relative tolerance."""
    us, metric = unit in US, unit in METRIC
    n = param
    tol = Fr(1, 10 ** 8)
    if n in ('Demand', 'Flow'):
        return FLOW[unit], None, tol
    if n == 'EmitterCoeff':
        if us:
            return None, FLOW[unit] ** 2 * PSI_PER_FT / FT, tol
        return FLOW[unit], None, tol
    if n == 'PipeDiameter':
        return (Fr('0.0254') if us else Fr('0.001') if metric else Fr(1)), None, tol
    if n == 'RoughnessCoeff':
        if not dw:
            return Fr(1), None, tol
        return (Fr('0.001') * FT if us else Fr('0.001') if metric else Fr(1)), None, tol
    if n in ('TankDiameter', 'Elevation', 'HydraulicHead', 'Length', 'Velocity'):
        return (FT if us else Fr(1)), None, tol
    if n == 'HeadLoss':
        return Fr(1, 1000), None, tol
    if n == 'Energy':
        return Fr(3600000), None, tol
    if n == 'Power':
        return (HP if us else Fr(1000) if metric else Fr(1)), None, tol
    if n == 'Pressure':
        return (FT / PSI_PER_FT if us else Fr(1)), None, tol
    if n == 'Volume':
        return (FT ** 3 if us else Fr(1)), None, tol
    m = MASS[mass]
    if n in ('Concentration', 'Quality', 'LinkQuality'):
        return m * 1000, None, tol
    if n == 'ReactionRate':
        return m * 1000 / 86400, None, tol
    if n == 'SourceMassInject':
        return m / 60, None, tol
    if n == 'BulkReactionCoeff':
        return (Fr(1, 86400) if order == 1 else Fr(1)), None, tol
    if n == 'WallReactionCoeff':
        if order == 0:
            # mass/ft2/day (US) or mass/m2/day -> kg/m2/s ; 1 ft2 = 0.09290304 m2 (code rounds to 0.092903)
            return (m / (FT ** 2) / 86400 if us else m / 86400), None, Fr(1, 10 ** 5)
        if order == 1:
            return (FT / 86400 if us else Fr(1, 86400)), None, tol
        return Fr(1), None, tol
    if n == 'WaterAge':
        return Fr(3600), None, tol
    raise KeyError(n)


def combos(tier):
    for u in FlowUnits:
        if u.name not in FLOW:
            raise symx.HarnessError('unknown flow unit member %s' % u.name)
    for u in FlowUnits:
        for p in HydParam:
            for dw in ((False, True) if p is HydParam.RoughnessCoeff else (False,)):
                yield u, p, 'mg', 0, dw
        for p in QualParam:
            masses = list(MassUnits)
            orders = (0, 1, 2) if p in (QualParam.BulkReactionCoeff, QualParam.WallReactionCoeff) else (0,)
            for m in masses:
                for o in orders:
                    yield u, p, m.name, o, False


def _conv(fn, u, p, x, m, o, dw):
    return fn(u, x, p, mass_units=MassUnits[m], darcy_weisbach=dw, reaction_order=o)


def _one(rep, c, u, p, m, o, dw):
    tag = '%s/%s/%s/o%d/%s' % (u.name, p.name, m, o, 'dw' if dw else '-')
    x, a, y = c.real('x'), c.real('a'), c.real('y')
    base = dict(unit=u.name, param=p.name, hyd=isinstance(p, HydParam), mass=m, order=o, dw=dw)

    def wit(kind, **extra):
        def w(model):
            d = dict(base, kind=kind, x=symx.model_value(model, x), a=symx.model_value(model, a), y=symx.model_value(model, y))
            d.update(extra)
            return d
        return w

    tx = _conv(to_si, u, p, x, m, o, dw)
    fx = _conv(from_si, u, p, x, m, o, dw)
    # a parameter that needs no conversion returns the input unchanged
    rep.prove('inverse.from(to)/' + tag, c.constraints(), real(_conv(from_si, u, p, tx, m, o, dw)) == real(x), wit('inv_ft'), 'conv')
    rep.prove('inverse.to(from)/' + tag, c.constraints(), real(_conv(to_si, u, p, fx, m, o, dw)) == real(x), wit('inv_tf'), 'conv')
    lin = _conv(to_si, u, p, a * x + y, m, o, dw)
    rep.prove('linear.to/' + tag, c.constraints(), real(lin) == real(a * tx + _conv(to_si, u, p, y, m, o, dw)), wit('lin_to'), 'conv')
    linf = _conv(from_si, u, p, a * x + y, m, o, dw)
    rep.prove('linear.from/' + tag, c.constraints(), real(linf) == real(a * fx + _conv(from_si, u, p, y, m, o, dw)), wit('lin_from'), 'conv')
    F, sq, tol = oracle_factor(u.name, p.name, m, o, dw)
    cons = c.constraints()
    if F is None:
        Fv = z3.Real('F_oracle')
        cons = cons + [Fv > 0, Fv * Fv == symx.rv(sq)]
    else:
        Fv = symx.rv(F)
    t = real(tx)
    ref = Fv * real(x)
    absref = z3.If(ref >= 0, ref, -ref)
    rep.prove('factor/' + tag, cons, z3.And(t - ref <= symx.rv(tol) * absref, ref - t <= symx.rv(tol) * absref),
              wit('factor', oracle=float(F) if F is not None else float(sq) ** 0.5, tol=float(tol)), 'conv',
              sample='|to_si(x) - %s*x| <= %g*|.|  for all real x' % (float(F) if F is not None else 'sqrt(%s)' % float(sq), float(tol)))


def _containers(rep, c, u, p, m, o, dw, fn, fname):
    tag = '%s/%s/%s/%s' % (fname, u.name, p.name, m)
    x1, x2 = c.real('x1'), c.real('x2')
    s1 = _conv(fn, u, p, x1, m, o, dw)
    s2 = _conv(fn, u, p, x2, m, o, dw)
    base = dict(unit=u.name, param=p.name, hyd=isinstance(p, HydParam), mass=m, order=o, dw=dw, fn=fname)

    def wit(kind):
        return lambda model: dict(base, kind=kind, x1=symx.model_value(model, x1), x2=symx.model_value(model, x2))

    def cex(kind, why):
        rep.counterexample('container.%s/%s' % (kind, tag), dict(base, kind=kind, x1=1.5, x2=-2.25, why=why), 'container')

    kinds = ['list', 'ndarray', 'dict']
    if isinstance(p, HydParam):
        kinds.append('dataframe')
    inv = from_si if fn is to_si else to_si
    for kind in kinds:
        name = 'container.%s/%s' % (kind, tag)
        try:
            if kind == 'list':
                src = [x1, x2]
                out = _conv(fn, u, p, src, m, o, dw)
                ok = isinstance(out, list) and len(out) == 2
                vals = out if ok else None
                read = lambda q: list(q)
            elif kind == 'ndarray':
                src = np.empty(2, dtype=object)
                src[0], src[1] = x1, x2
                out = _conv(fn, u, p, src, m, o, dw)
                ok = isinstance(out, np.ndarray) and out.shape == (2,)
                vals = list(out) if ok else None
                read = lambda q: list(q)
            elif kind == 'dict':
                src = {'9': x1, '10': x2}
                out = _conv(fn, u, p, src, m, o, dw)
                ok = isinstance(out, dict) and list(out.keys()) == ['9', '10']
                vals = [out['9'], out['10']] if ok else None
                read = lambda q: [q['9'], q['10']]
            else:
                src = pd.DataFrame({'b': [x1], 'a': [x2]}, index=[3600], dtype=object)
                out = _conv(fn, u, p, src, m, o, dw)
                ok = isinstance(out, pd.DataFrame) and list(out.columns) == ['b', 'a'] and list(out.index) == [3600]
                vals = [out.loc[3600, 'b'], out.loc[3600, 'a']] if ok else None
                read = lambda q: [q.loc[3600, 'b'], q.loc[3600, 'a']]
            # the inverse, the way a caller writes it: inv(fn(x)) compared with the caller's own x after both calls
            back = read(_conv(inv, u, p, out, m, o, dw)) if ok else None
            mine = read(src)
        except Exception as ex:  # the documented container is rejected
            cex(kind, 'raised %s: %s' % (type(ex).__name__, ex))
            continue
        if not ok:
            cex(kind, 'returned %s' % type(out).__name__)
            continue
        rep.prove(name, c.constraints(), z3.And(real(vals[0]) == real(s1), real(vals[1]) == real(s2)), wit(kind), 'container')
        rep.prove(name + '/inverse-on-callers-data', c.constraints(), z3.And(real(back[0]) == real(mine[0]), real(back[1]) == real(mine[1])), wit(kind), 'container')


def run(rep, only=None):
    rep.explanation = ('The real to_si/from_si run on z3 Real proxies; enums are enumerated exhaustively; z3 decides inverse, '
                       'linearity, factor-vs-oracle and container obligations for all real values (linear real arithmetic).')
    rep.encode(U.to_si, U.from_si, HydParam._to_si, HydParam._from_si, QualParam._to_si, QualParam._from_si,
               FlowUnits.is_traditional.fget, FlowUnits.is_metric.fget, FlowUnits.factor.fget, MassUnits.factor.fget)
    rep.bound('value: any real (float rounding outside the claim; replay tolerance 1e-12 relative)')
    rep.bound('flow units x parameters x mass units x reaction orders {0,1,2} x darcy_weisbach: enumerated completely')
    rep.bound('containers of 2 entries (list, object ndarray, dict, DataFrame for HydParam); dict keys / columns inserted in an order that is not their sorted order')
    rep.assume('Python floats modelled as reals; factors computed by the code in floating point enter exactly as the floats they are')
    rep.assume('oracle table: 1 gal=3.785411784 L, 1 imp gal=4.54609 L, 1 ft=0.3048 m, 1 acre-ft=43560 ft3, 1 psi=0.3048/0.4333 m, '
               '1 hp=745.699872 W; tolerance 1e-8 relative (1e-5 for the ft2 constant)')
    n = [0]

    def harness(c):
        for (u, p, m, o, dw) in combos(rep.tier):
            _one(rep, c, u, p, m, o, dw)
            n[0] += 1
        # containers: every parameter, one US + one metric + SI unit in quick, all in thorough
        units = list(FlowUnits) if rep.tier == 'thorough' else [FlowUnits.GPM, FlowUnits.LPS, FlowUnits.SI]
        for u in units:
            for p in list(HydParam) + list(QualParam):
                for fn, fname in ((to_si, 'to_si'), (from_si, 'from_si')):
                    _containers(rep, c, u, p, 'mg', 0, p is HydParam.RoughnessCoeff, fn, fname)
        rep.reach('c17', c.constraints() + [c.real('x').e > 1])
        return None

    def go():
        for path in symx.explore(harness, max_paths=4):
            if path.exc is not None:
                raise path.exc
    guarded(rep, 'c17', go)
    rep.extra['combinations'] = n[0]


# ---- replay on the real code with plain floats ---------------------------------------------------
def _args(i):
    u = FlowUnits[i['unit']]
    p = HydParam[i['param']] if i['hyd'] else QualParam[i['param']]
    kw = dict(mass_units=MassUnits[i['mass']], darcy_weisbach=i['dw'], reaction_order=i['order'])
    return u, p, kw


def _close(a, b, rel=1e-12):
    return abs(a - b) <= rel * max(abs(a), abs(b)) + 1e-300


def replay_conv(i):
    u, p, kw = _args(i)
    x, a, y = float(i['x']), float(i['a']), float(i['y'])
    if i['kind'] == 'inv_ft':
        r = from_si(u, to_si(u, x, p, **kw), p, **kw)
        return None if _close(r, x) else 'from_si(to_si(%r)) = %r' % (x, r)
    if i['kind'] == 'inv_tf':
        r = to_si(u, from_si(u, x, p, **kw), p, **kw)
        return None if _close(r, x) else 'to_si(from_si(%r)) = %r' % (x, r)
    if i['kind'] in ('lin_to', 'lin_from'):
        f = to_si if i['kind'] == 'lin_to' else from_si
        l = f(u, a * x + y, p, **kw)
        r = a * f(u, x, p, **kw) + f(u, y, p, **kw)
        scale = abs(a * x) + abs(y)
        return None if abs(l - r) <= 1e-9 * abs(f(u, scale, p, **kw)) + 1e-300 else 'not linear: %r vs %r' % (l, r)
    if i['kind'] == 'factor':
        x = x if x != 0 else 1.0
        r = to_si(u, x, p, **kw)
        ref = i['oracle'] * x
        return None if abs(r - ref) <= i['tol'] * abs(ref) * 1.0000001 else 'to_si(%r) = %r, physical definition gives %r' % (x, r, ref)
    raise ValueError(i['kind'])


def replay_container(i):
    u, p, kw = _args(i)
    f = to_si if i['fn'] == 'to_si' else from_si
    x1, x2 = float(i['x1']), float(i['x2'])
    s1, s2 = f(u, x1, p, **kw), f(u, x2, p, **kw)
    k = i['kind']
    try:
        if k == 'list':
            out = f(u, [x1, x2], p, **kw)
            if not isinstance(out, list):
                return 'list came back as %s' % type(out).__name__
            v = out
        elif k == 'ndarray':
            out = f(u, np.array([x1, x2]), p, **kw)
            if not isinstance(out, np.ndarray):
                return 'ndarray came back as %s' % type(out).__name__
            v = list(out)
        elif k == 'dict':
            out = f(u, {'9': x1, '10': x2}, p, **kw)
            if not isinstance(out, dict) or list(out) != ['9', '10']:
                return 'dict came back as %r' % (out,)
            v = [out['9'], out['10']]
        else:
            out = f(u, pd.DataFrame({'b': [x1], 'a': [x2]}, index=[3600]), p, **kw)
            if not isinstance(out, pd.DataFrame) or list(out.columns) != ['b', 'a'] or list(out.index) != [3600]:
                return 'DataFrame came back as %r' % (out,)
            v = [out.loc[3600, 'b'], out.loc[3600, 'a']]
    except Exception as ex:
        return '%s(%s) raised %s: %s' % (i['fn'], k, type(ex).__name__, ex)
    if len(v) != 2 or not (_close(v[0], s1) and _close(v[1], s2)):
        return '%s entries %r differ from scalar conversions %r' % (k, v, (s1, s2))
    # the inverse on the caller's own data: g(f(x)) against x as the caller holds it after both calls
    g = from_si if i['fn'] == 'to_si' else to_si
    try:
        if k == 'list':
            src = [x1, x2]
            back, mine = list(g(u, f(u, src, p, **kw), p, **kw)), list(src)
        elif k == 'ndarray':
            src = np.array([x1, x2])
            back, mine = list(g(u, f(u, src, p, **kw), p, **kw)), list(src)
        elif k == 'dict':
            src = {'9': x1, '10': x2}
            b_ = g(u, f(u, src, p, **kw), p, **kw)
            back, mine = [b_['9'], b_['10']], [src['9'], src['10']]
        else:
            src = pd.DataFrame({'b': [x1], 'a': [x2]}, index=[3600])
            b_ = g(u, f(u, src, p, **kw), p, **kw)
            back, mine = [b_.loc[3600, 'b'], b_.loc[3600, 'a']], [src.loc[3600, 'b'], src.loc[3600, 'a']]
    except Exception as ex:
        return 'inverse of %s(%s) raised %s: %s' % (i['fn'], k, type(ex).__name__, ex)
    if not (_close(back[0], mine[0], 1e-9) and _close(back[1], mine[1], 1e-9)):
        return '%s: inverse(%s(x)) = %r but the caller\'s x is now %r (given %r): the input was modified in place' % (k, i['fn'], back, mine, [x1, x2])
    return None

"""C14  All views of the model stay mutually consistent under any edit history.

Edit histories are sequences of operations whose opcode and operands are solver-chosen (forked choices over small name
pools); the explorer enumerates EVERY history up to the stated length from each start model - the solver decides which
branches are feasible and certifies that the tree is exhausted.  The operations are the real public API: add_junction / tank /
reservoir / pipe / pump (head with curve, power with speed pattern) / valve (PRV, TCV, PBV, GPV with curve) / pattern / curve /
source / control, remove_*, and reassignment of start_node, end_node, speed_pattern_name, pump_curve_name, vol_curve_name.
Operations the API rejects with an exception are part of the history.  After EVERY operation:
   views      name lists = iterators = counts; typed subsets partition the node / link sets and hold the right classes;
              every link's end nodes are the registered node objects; get_links_for_node (ALL / INLET / OUTLET) = links
              computed from end-node names; to_graph() nodes and edges = the model's; describe() counts agree
   usage      every usage record names an existing user that really uses the element, and every use has its record
              (links at their end nodes, patterns of demands / pump speeds / sources / reservoir heads, curves of pumps /
              tanks / GPVs)
   refusal    remove_* of an element that is still in use raises and leaves to_dict and all views unchanged
This is bounded exhaustive enumeration driven by the solver (discrete input space), stated as such.
"""
import copy
import itertools
import z3

import wntr
from wntr.network import model as NM, base as NB, elements as EL
from wntr.network.base import LinkStatus
from wntr.network.controls import Control, ControlAction, SimTimeCondition, Comparison, Rule, ValueCondition, OrCondition, AndCondition

from .. import symx
from ..harness import SymVars, ConcVars
from ..report import guarded, run_parallel

NODES = ['A', 'B', 'C']
LINKS = ['L1', 'L2']
PATS = ['P', 'Q']
CURVES = {'H': ('HEAD', [(0.05, 30.0)]), 'V': ('VOLUME', [(0.0, 0.0), (10.0, 500.0)]), 'G': ('HEADLOSS', [(0.0, 0.0), (0.1, 5.0)]),
          'E': ('HEADLOSS', [])}       # a placeholder curve without points yet


def start_model(kind):
    wn = wntr.network.WaterNetworkModel()
    if kind == 'empty':
        return wn
    wn.add_pattern('P', [1.0, 2.0])
    for cn, (ct, pts) in CURVES.items():
        wn.add_curve(cn, ct, pts)
    wn.add_reservoir('A', base_head=50.0, head_pattern='P')
    wn.add_junction('B', base_demand=0.01, demand_pattern='P')
    wn.add_pattern('Q', [0.5, 1.5, 1.0])
    wn.get_node('B').add_demand(0.002, 'Q', 'second')      # a second demand with a pattern of its own
    if kind == 'rich':
        wn.add_tank('C', elevation=10.0, init_level=3.0, min_level=0.0, max_level=8.0, diameter=5.0, vol_curve='V')
        wn.add_pump('L1', 'A', 'B', 'HEAD', 'H', pattern='P')
        wn.add_pipe('L2', 'B', 'C')
        wn.add_source('S', 'B', 'CONCEN', 1.0, 'P')
        wn.add_control('K', Control(SimTimeCondition(wn, Comparison.eq, 3600), ControlAction(wn.get_link('L2'), 'status', LinkStatus.Closed)))
        # a rule that READS the pump only in the second operand of an OR and the tank only in the first operand of the AND inside it
        cond = OrCondition(AndCondition(ValueCondition(wn.get_node('C'), 'level', Comparison.ge, 5.0), SimTimeCondition(wn, Comparison.ge, 7200)),
                           ValueCondition(wn.get_link('L1'), 'flow', Comparison.le, 0.001))
        wn.add_control('R', Rule(cond, [ControlAction(wn.get_link('L2'), 'status', LinkStatus.Open)], name='R'))
    return wn


# opcode table: (name, operand kinds)
OPS = [
    ('add_junction', ('node', 'patopt')), ('add_tank', ('node', 'curveopt')), ('add_reservoir', ('node', 'patopt')),
    ('add_pipe', ('link', 'node', 'node')), ('add_head_pump', ('link', 'node', 'node')), ('add_power_pump', ('link', 'node', 'node')),
    ('add_valve', ('link', 'node', 'node', 'vtype')), ('add_pattern', ('pat',)), ('add_curve', ('curve',)), ('add_source', ('node', 'patopt')),
    ('add_control', ('link',)),
    ('remove_node', ('node',)), ('remove_link', ('link',)), ('remove_pattern', ('pat',)), ('remove_curve', ('curve',)), ('remove_source', ()),
    ('remove_control', ()),
    ('set_start', ('link', 'node')), ('set_end', ('link', 'node')), ('set_speed_pattern', ('link', 'patopt')), ('set_pump_curve', ('link', 'curve')),
    ('set_vol_curve', ('node', 'curveopt')),
]
POOLS = {'node': NODES, 'link': LINKS, 'pat': PATS, 'patopt': [None, 'P'], 'curve': ['H', 'V', 'G'], 'curveopt': [None, 'V'], 'vtype': ['PRV', 'TCV', 'PBV', 'GPV', 'GPV-placeholder']}
EXPECTED = (KeyError, ValueError, RuntimeError, AssertionError, AttributeError, TypeError)


def apply_op(wn, op, args):
    """returns None if done, or the exception instance if the API rejected the operation"""
    if op == 'add_source' and 'S' in wn.source_name_list:
        return None        # re-using a source name is outside the histories considered (the statement is about nodes, links and their users)
    try:
        if op == 'add_junction':
            wn.add_junction(args[0], base_demand=0.01, demand_pattern=args[1])
        elif op == 'add_tank':
            wn.add_tank(args[0], elevation=10.0, init_level=3.0, min_level=0.0, max_level=8.0, diameter=5.0, vol_curve=args[1])
        elif op == 'add_reservoir':
            wn.add_reservoir(args[0], base_head=40.0, head_pattern=args[1])
        elif op == 'add_pipe':
            wn.add_pipe(args[0], args[1], args[2])
        elif op == 'add_head_pump':
            wn.add_pump(args[0], args[1], args[2], 'HEAD', 'H', pattern='P')
        elif op == 'add_power_pump':
            wn.add_pump(args[0], args[1], args[2], 'POWER', 100.0, pattern=None)
        elif op == 'add_valve':
            if args[3].startswith('GPV'):
                wn.add_valve(args[0], args[1], args[2], 0.3, 'GPV', 0.0, 'G' if args[3] == 'GPV' else 'E')
            else:
                wn.add_valve(args[0], args[1], args[2], 0.3, args[3], 0.0, 10.0)
        elif op == 'add_pattern':
            wn.add_pattern(args[0], [1.0, 0.5])
        elif op == 'add_curve':
            wn.add_curve(args[0], CURVES[args[0]][0], CURVES[args[0]][1])
        elif op == 'add_source':
            wn.add_source('S', args[0], 'CONCEN', 1.0, args[1])
        elif op == 'add_control':
            wn.add_control('K', Control(SimTimeCondition(wn, Comparison.eq, 3600), ControlAction(wn.get_link(args[0]), 'status', LinkStatus.Closed)))
        elif op == 'remove_node':
            wn.remove_node(args[0])
        elif op == 'remove_link':
            wn.remove_link(args[0])
        elif op == 'remove_pattern':
            wn.remove_pattern(args[0])
        elif op == 'remove_curve':
            wn.remove_curve(args[0])
        elif op == 'remove_source':
            wn.remove_source('S')
        elif op == 'remove_control':
            wn.remove_control('K')
        elif op == 'set_start':
            wn.get_link(args[0]).start_node = wn.get_node(args[1])
        elif op == 'set_end':
            wn.get_link(args[0]).end_node = wn.get_node(args[1])
        elif op == 'set_speed_pattern':
            wn.get_link(args[0]).speed_pattern_name = args[1]
        elif op == 'set_pump_curve':
            wn.get_link(args[0]).pump_curve_name = args[1]
        elif op == 'set_vol_curve':
            wn.get_node(args[0]).vol_curve_name = args[1]
        else:
            raise symx.HarnessError('unknown op ' + op)
    except EXPECTED as ex:
        return ex
    return None


def views_consistent(wn):
    """list of inconsistencies (empty = consistent).  Must never raise: an exception while reading a view is itself reported."""
    bad = []

    def guard(what, f):
        try:
            return f()
        except Exception as ex:     # noqa
            bad.append('%s raised %s: %s' % (what, type(ex).__name__, ex))
            return None
    nodes = guard('nodes()', lambda: [n for n, _ in wn.nodes()])
    links = guard('links()', lambda: [n for n, _ in wn.links()])
    if nodes is None or links is None:
        return bad
    if wn.node_name_list != nodes or wn.num_nodes != len(nodes):
        bad.append('node_name_list/num_nodes disagree with nodes()')
    if wn.link_name_list != links or wn.num_links != len(links):
        bad.append('link_name_list/num_links disagree with links()')
    typed_n = [('junction', EL.Junction, 'junctions'), ('tank', EL.Tank, 'tanks'), ('reservoir', EL.Reservoir, 'reservoirs')]
    seen = []
    for nm, cls, it in typed_n:
        lst = getattr(wn, nm + '_name_list')
        itl = guard(it + '()', lambda it=it: [n for n, _ in getattr(wn, it)()])
        if itl is None:
            continue
        if lst != itl or getattr(wn, 'num_' + it) != len(lst):
            bad.append('%s_name_list / %s() / num_%s disagree' % (nm, it, it))
        for n in lst:
            if n not in nodes or not isinstance(wn.get_node(n), cls):
                bad.append('%s_name_list holds %s which is not an existing %s' % (nm, n, cls.__name__))
        seen += lst
    if sorted(seen) != sorted(nodes):
        bad.append('typed node lists %r do not partition the nodes %r' % (sorted(seen), sorted(nodes)))
    typed_l = [('pipe', EL.Pipe, 'pipes'), ('pump', EL.Pump, 'pumps'), ('valve', EL.Valve, 'valves')]
    seen = []
    for nm, cls, it in typed_l:
        lst = getattr(wn, nm + '_name_list')
        itl = guard(it + '()', lambda it=it: [n for n, _ in getattr(wn, it)()])
        if itl is None:
            continue
        if lst != itl or getattr(wn, 'num_' + it) != len(lst):
            bad.append('%s_name_list / %s() / num_%s disagree' % (nm, it, it))
        for n in lst:
            if n not in links or not isinstance(wn.get_link(n), cls):
                bad.append('%s_name_list holds %s which is not an existing %s' % (nm, n, cls.__name__))
        seen += lst
    if sorted(seen) != sorted(links):
        bad.append('typed link lists %r do not partition the links %r' % (sorted(seen), sorted(links)))
    sub = [('head_pump', EL.HeadPump, 'head_pumps'), ('power_pump', EL.PowerPump, 'power_pumps'), ('prv', EL.PRValve, 'prvs'), ('psv', EL.PSValve, 'psvs'),
           ('pbv', EL.PBValve, 'pbvs'), ('tcv', EL.TCValve, 'tcvs'), ('fcv', EL.FCValve, 'fcvs'), ('gpv', EL.GPValve, 'gpvs')]
    for nm, cls, it in sub:
        lst = getattr(wn, nm + '_name_list')
        itl = guard(it + '()', lambda it=it: [n for n, _ in getattr(wn, it)()])
        want = [n for n in links if isinstance(wn.get_link(n), cls)]
        if itl is None:
            continue
        if sorted(lst) != sorted(want) or sorted(itl) != sorted(want):
            bad.append('%s views %r / %r, existing %s: %r' % (nm, lst, itl, cls.__name__, want))
    # end nodes exist and are the registered objects
    for ln in links:
        l = wn.get_link(ln)
        for end in ('start_node', 'end_node'):
            nd = getattr(l, end)
            if nd.name not in nodes or wn.get_node(nd.name) is not nd:
                bad.append('link %s %s %s is not a node of the model' % (ln, end, nd.name))
    # adjacency
    for n in nodes:
        for flag, want in (('ALL', sorted(ln for ln in links if n in (wn.get_link(ln).start_node_name, wn.get_link(ln).end_node_name))),
                           ('INLET', sorted(ln for ln in links if wn.get_link(ln).end_node_name == n)),
                           ('OUTLET', sorted(ln for ln in links if wn.get_link(ln).start_node_name == n))):
            got = guard('get_links_for_node(%s,%s)' % (n, flag), lambda n=n, flag=flag: sorted(wn.get_links_for_node(n, flag)))
            if got is not None and got != want:
                bad.append('get_links_for_node(%s, %s) = %r, links by end-node names: %r' % (n, flag, got, want))
    G = guard('to_graph()', lambda: wn.to_graph())
    if G is not None:
        if sorted(G.nodes()) != sorted(nodes):
            bad.append('to_graph nodes %r' % sorted(G.nodes()))
        ge = sorted((u, v, k) for u, v, k in G.edges(keys=True))
        we = sorted((wn.get_link(ln).start_node_name, wn.get_link(ln).end_node_name, ln) for ln in links)
        if ge != we:
            bad.append('to_graph edges %r, links %r' % (ge, we))
    d = guard('describe()', lambda: wn.describe(level=2))
    if d is not None:
        cnt = lambda cls: len([n for n in links if isinstance(wn.get_link(n), cls)])
        want = {'Head': cnt(EL.HeadPump), 'Power': cnt(EL.PowerPump)}
        wantv = {'PRV': cnt(EL.PRValve), 'PSV': cnt(EL.PSValve), 'PBV': cnt(EL.PBValve), 'TCV': cnt(EL.TCValve), 'FCV': cnt(EL.FCValve), 'GPV': cnt(EL.GPValve)}
        nn = {'Junctions': len([n for n in nodes if isinstance(wn.get_node(n), EL.Junction)]), 'Tanks': len([n for n in nodes if isinstance(wn.get_node(n), EL.Tank)]),
              'Reservoirs': len([n for n in nodes if isinstance(wn.get_node(n), EL.Reservoir)])}
        if d['Nodes'] != nn or d['Links']['Pipes'] != cnt(EL.Pipe) or d['Links']['Pumps'] != want or d['Links']['Valves'] != wantv:
            bad.append('describe() counts %r disagree with the existing elements' % (d,))
    # usage records <-> actual uses
    uses_nodes, uses_pats, uses_curves = {}, {}, {}

    def use(table, key, user):
        if key:
            table.setdefault(key, set()).add(user)
    for ln in links:
        l = wn.get_link(ln)
        use(uses_nodes, l.start_node_name, (ln, l.link_type))
        use(uses_nodes, l.end_node_name, (ln, l.link_type))
        if isinstance(l, EL.Pump):
            use(uses_pats, l.speed_pattern_name, (ln, 'Pump'))
        if isinstance(l, EL.HeadPump):
            use(uses_curves, l.pump_curve_name, (ln, 'Pump'))
        if isinstance(l, EL.GPValve):
            use(uses_curves, l.headloss_curve_name, (ln, 'Valve'))
    for n in nodes:
        nd = wn.get_node(n)
        if isinstance(nd, EL.Junction):
            for ts in nd.demand_timeseries_list:
                if isinstance(ts._pattern, str):      # an explicit pattern; the model-wide default pattern is not a registered use
                    use(uses_pats, ts.pattern_name, (n, 'Junction'))
        if isinstance(nd, EL.Reservoir):
            use(uses_pats, nd.head_pattern_name, (n, 'Reservoir'))
        if isinstance(nd, EL.Tank):
            use(uses_curves, nd.vol_curve_name, (n, 'Tank'))
    for sn, s in wn.sources():
        use(uses_nodes, s.node_name, (sn, 'Source'))
        use(uses_pats, s.strength_timeseries.pattern_name, (sn, 'Source'))
    for reg, table, what in ((wn._node_reg, uses_nodes, 'node'), (wn._pattern_reg, uses_pats, 'pattern'), (wn._curve_reg, uses_curves, 'curve')):
        rec = {k: set(v) for k, v in reg._usage.items() if v}
        for k, users in rec.items():
            for u in users:
                if u not in table.get(k, set()):
                    bad.append('%s %s has a usage record for %r which does not use it (or no longer exists)' % (what, k, u))
        for k, users in table.items():
            for u in users:
                if u not in rec.get(k, set()):
                    bad.append('%s %s is used by %r but has no usage record for it' % (what, k, u))
    for cn, ctl in wn.controls():
        for req in control_objects(ctl):
            nm = getattr(req, 'name', None)
            if isinstance(req, NB.Link) and (nm not in links or wn.get_link(nm) is not req):
                bad.append('control %s requires link %s which is not in the model' % (cn, nm))
            if isinstance(req, NB.Node) and (nm not in nodes or wn.get_node(nm) is not req):
                bad.append('control %s requires node %s which is not in the model' % (cn, nm))
    return bad


def control_objects(ctl):
    """the model elements a control reads or writes, found by walking its condition tree and its actions (not through requires())"""
    out = []

    def walk(c):
        if c is None:
            return
        for a in ('_condition_1', '_condition_2'):
            if hasattr(c, a):
                walk(getattr(c, a))
        for a in ('_source_obj', '_threshold_obj'):
            o = getattr(c, a, None)
            if isinstance(o, (NB.Node, NB.Link)):
                out.append(o)
    walk(getattr(ctl, '_condition', None))
    for a in list(getattr(ctl, '_then_actions', []) or []) + list(getattr(ctl, '_else_actions', []) or []):
        o = getattr(a, '_target_obj', None)
        if isinstance(o, (NB.Node, NB.Link)):
            out.append(o)
    return out


def in_use(wn, op, args):
    """is this a removal of an element that is still in use?"""
    if op == 'remove_node' and args[0] in wn.node_name_list:
        return (bool(wn._node_reg._usage.get(args[0])) or any(args[0] in (wn.get_link(l).start_node_name, wn.get_link(l).end_node_name) for l in wn.link_name_list)
                or any(wn.get_node(args[0]) is o for _, c in wn.controls() for o in control_objects(c)))
    if op == 'remove_pattern' and args[0] in wn.pattern_name_list:
        return bool(wn._pattern_reg._usage.get(args[0]))
    if op == 'remove_curve' and args[0] in wn.curve_name_list:
        return bool(wn._curve_reg._usage.get(args[0]))
    if op == 'remove_link' and args[0] in wn.link_name_list:
        return any(wn.get_link(args[0]) is o for _, c in wn.controls() for o in control_objects(c))
    return False


def snapshot(wn):
    d = wntr.network.to_dict(wn)
    d.pop('version', None)
    return d


def run_history(wn, hist):
    """apply a concrete history; returns (step index, problems) of the first inconsistency or (None, [])"""
    for k, (op, args) in enumerate(hist):
        refusal = in_use(wn, op, args)
        before = snapshot(wn) if refusal else None
        ex = apply_op(wn, op, args)
        if refusal:
            if ex is None:
                return k, ['%s%r succeeded although the element is still in use' % (op, tuple(args))]
            if snapshot(wn) != before:
                return k, ['%s%r was refused (%s) but changed the model' % (op, tuple(args), type(ex).__name__)]
        bad = views_consistent(wn)
        if bad:
            return k, ['after %s%r%s: %s' % (op, tuple(args), ' (rejected: %s)' % type(ex).__name__ if ex is not None else '', b) for b in bad[:3]]
    return None, []


def check_histories(rep, start, length, opsubset, part=0, nparts=1):
    tag = '%s/len%d/%s%s' % (start, length, opsubset, '' if nparts == 1 else '.%d' % part)
    names = {'node-ops': ['add_junction', 'add_tank', 'add_reservoir', 'remove_node', 'set_vol_curve', 'add_source', 'remove_source', 'remove_pattern', 'remove_curve'],
             'link-ops': ['add_pipe', 'add_head_pump', 'add_power_pump', 'add_valve', 'remove_link', 'set_start', 'set_end', 'remove_node'],
             'registry-ops': ['add_pattern', 'add_curve', 'remove_pattern', 'remove_curve', 'set_speed_pattern', 'set_pump_curve', 'add_control', 'remove_control', 'remove_link', 'add_head_pump'],
             'all': [o for o, _ in OPS]}[opsubset]
    table = [(o, k) for o, k in OPS if o in names]
    # the first operation of the history is split over `nparts` tasks: (opcode, first operand) pairs dealt round-robin
    units = [(o, k, a0) for o, k in table for a0 in (POOLS[k[0]] if k else [None])]
    first = units if nparts == 1 else [t for i, t in enumerate(units) if i % nparts == part]
    if not first:
        return

    def harness(c):
        V = SymVars(c)
        wn = start_model(start)
        hist = []
        for step in range(length):
            if step == 0:
                op, kinds, a0 = V.choice('op0', first)
                args = [a0 if j == 0 else V.choice('arg0_%d' % j, POOLS[kd]) for j, kd in enumerate(kinds)]
            else:
                op, kinds = V.choice('op%d' % step, table)
                args = [V.choice('arg%d_%d' % (step, j), POOLS[kd]) for j, kd in enumerate(kinds)]
            hist.append((op, args))
        k, problems = run_history(wn, hist)
        return hist, k, problems
    n = 0
    found = {}
    for path in symx.explore(harness, max_paths=400000, timeout_s=500 if rep.tier == 'quick' else 3000):
        if path.exc is not None:
            raise path.exc
        n += 1
        hist, k, problems = path.value
        if problems:
            key = problems[0].split(':')[-1][:60] if ':' in problems[0] else problems[0][:60]
            cls = _classify(problems[0])
            if cls not in found:
                found[cls] = (hist[:k + 1], problems)
    rep.extra['histories_' + tag] = n
    rep.paths += 0
    if not found:
        rep.discharged('history/%s' % tag, sample={'histories_explored': n, 'ops': names})
    for cls, (hist, problems) in found.items():
        rep.counterexample('history/%s/%s' % (tag, cls), dict(start=start, history=[[o, a] for o, a in hist], why=problems[0][:300], cls=cls), 'history')


def _classify(msg):
    for key in ('usage record', 'no usage record', 'get_links_for_node', 'name_list', 'views', 'partition', 'raised', 'to_graph', 'still in use', 'refused', 'requires', 'describe', 'not a node'):
        if key in msg:
            return key.replace(' ', '-')
    return 'other'


def replay_history(i):
    wn = start_model(i['start'])
    k, problems = run_history(wn, [(o, a) for o, a in i['history']])
    if problems:
        return 'history %s from the %s model: %s' % (' ; '.join('%s(%s)' % (o, ','.join(map(str, a))) for o, a in i['history']), i['start'], problems[0])
    return None


def run(rep, only=None):
    rep.explanation = ('Edit histories with solver-chosen opcodes and operands (forked choices): every history up to the stated length from each start model is executed on the real public API; '
                       'after every operation all views and usage records are compared with each other and with what the elements themselves say. z3 decides branch feasibility and certifies '
                       'that the history tree is exhausted (bounded exhaustive enumeration; the input space is discrete).')
    rep.encode(NM.NodeRegistry.__setitem__, NM.NodeRegistry.__delitem__, NM.LinkRegistry.__setitem__, NM.LinkRegistry.__delitem__, NM.PatternRegistry.__delitem__ if hasattr(NM.PatternRegistry, '__delitem__') else NB.Registry.__delitem__,
               NB.Registry.add_usage, NB.Registry.remove_usage, NM.WaterNetworkModel.remove_node, NM.WaterNetworkModel.remove_link, NM.WaterNetworkModel.get_links_for_node,
               NB.Link.start_node.fset, NB.Link.end_node.fset, EL.Pump.speed_pattern_name.fset, EL.HeadPump.pump_curve_name.fset, EL.Tank.vol_curve_name.fset)
    rep.bound('name pools: 3 nodes, 2 links, 2 patterns, 3 curves + an empty placeholder curve; links may be re-pointed onto their own other end and added as self-loops; 22 operations; start models: empty, base (reservoir + junction with two demands on two patterns + curves), rich (+ tank with volume curve, head pump with speed pattern, pipe, source, second demand with its own pattern, time control, rule with OR / AND condition reading the tank and the pump)')
    rep.bound('quick: all histories of length 1 over all operations and of length 2 per operation family (node / link / registry); thorough: length 2 over all operations from both models, length 3 over the node and the registry operation families from the rich model')
    tasks = []
    for start in ('empty', 'base', 'rich'):
        tasks.append(('hist-%s-1-all' % start, check_histories, (start, 1, 'all')))
    for start in ('base', 'rich'):
        for fam in ('node-ops', 'registry-ops'):
            tasks.append(('hist-%s-2-%s' % (start, fam), check_histories, (start, 2, fam)))
        for part in range(8):
            tasks.append(('hist-%s-2-link-ops.%d' % (start, part), check_histories, (start, 2, 'link-ops', part, 8)))
    if rep.tier == 'thorough':
        # split over the first operation so that no single task carries a whole tree
        for start in ('base', 'rich'):
            for part in range(14):
                tasks.append(('hist-%s-2-all.%d' % (start, part), check_histories, (start, 2, 'all', part, 14)))
        # (length 3 over the link operations from the rich model does not finish within 50 minutes per task on this machine: not claimed)
        for fam, nparts in (('node-ops', 14), ('registry-ops', 14)):
            for part in range(nparts):
                tasks.append(('hist-rich-3-%s.%d' % (fam, part), check_histories, ('rich', 3, fam, part, nparts)))
    run_parallel(rep, tasks)

"""C13  Dictionary and JSON representations round-trip the model exactly.

The kitchen-sink model K (vf.kitchen: every element type, CV / closed pipes, vertices, several demand categories, head and
power pumps with speed pattern / energy settings, every valve type, tank with volume curve / overflow / mixing, patterns,
curves, sources, leaks, options, simple controls of every form and rules with AND / OR / ELSE / PRIORITY) is built with every
numeric attribute a z3 proxy.  The REAL to_dict, from_dict, write_json, read_json run on it (JSON through a token shim):
   dict        to_dict(from_dict(to_dict(K)))            == to_dict(K)
   json        to_dict(read_json(write_json(K)))          == to_dict(K)
   append      to_dict(from_dict(d, append=empty model))  == to_dict(from_dict(d))
key sets equal, every numeric leaf z3-equal (exact), every other leaf equal; control conditions/actions, which travel as
EPANET-style text and are re-parsed, are compared token by token.  Normalisations as in the statement: tuples = lists, an empty
pattern name = None, a junction without demands returns with one zero demand.
"""
import io
import copy
import z3

import wntr
from wntr.network import io as NIO, elements as EL, model as NM, base as NB, controls as C, options as OPT
import wntr.epanet.io as EIO

from .. import symx, kitchen
from ..symx import Sym, real
from ..harness import SymVars, ConcVars, compare
from ..report import guarded, run_parallel

MODS = [(NIO, ('int', 'float', 'isinstance', 'json')), (EIO, ('int', 'float', 'isinstance')), (C, ('int', 'float', 'isinstance', 'math', 'np')),
        (EL, ('int', 'float', 'isinstance', 'np')), (NM, ('int', 'float', 'isinstance')), (NB, ('int', 'float', 'isinstance')), (OPT, ('int', 'float', 'isinstance'))]

VARIANTS = [
    dict(name='full', leaks=True, controls=True, rules=True, quality=True, vertices=True),
    dict(name='no-controls', leaks=True, controls=False, rules=False, quality=True, vertices=True),
    dict(name='simple-controls', leaks=False, controls=True, rules=False, quality=False, vertices=False),
    dict(name='clock-noon-midnight', leaks=False, controls=True, rules=True, quality=False, vertices=False, clock_thresholds=(12 * 3600 + 45 * 60, 15 * 60)),
    dict(name='clock-midnight-noon', leaks=False, controls=True, rules=True, quality=False, vertices=False, clock_thresholds=(0, 12 * 3600)),
    dict(name='mixing-lifo-fifo', leaks=False, controls=False, rules=False, quality=True, vertices=False, mixing={'T1': 'LIFO', 'T2': 'FIFO'}),
    dict(name='mixing-mixed', leaks=False, controls=False, rules=False, quality=True, vertices=False, mixing={'T1': 'Mixed'}),
    dict(name='special-values', leaks=False, controls=False, rules=False, quality=True, vertices=False, mixing={'T1': 'TwoComp'}, mixfrac={'T1': 0.0}, nowrap=['PAT2']),
    dict(name='clock-once', leaks=False, controls=True, rules=True, quality=False, vertices=False, clock_once=1),
    dict(name='or-of-and', leaks=False, controls=True, rules=True, quality=False, vertices=False, or_of_and=True),
]


def normalise(d):
    d = copy.deepcopy(d)
    d.pop('version', None)
    for n in d.get('nodes', []):
        dl = n.get('demand_timeseries_list')
        if dl is not None and len(dl) == 0:
            n['demand_timeseries_list'] = [{'base_val': 0.0, 'pattern_name': None, 'category': None}]
        for e in (dl or []):
            if e.get('pattern_name') == '':
                e['pattern_name'] = None
    return d


def trips(wn):
    d0 = NIO.to_dict(wn)
    d1 = NIO.to_dict(NIO.from_dict(copy.deepcopy(d0)))
    buf = io.StringIO()
    NIO.write_json(wn, buf)
    buf.seek(0)
    d2 = NIO.to_dict(NIO.read_json(buf))
    d3 = NIO.to_dict(NIO.from_dict(copy.deepcopy(d0), append=wntr.network.WaterNetworkModel()))
    return d0, d1, d2, d3


def check_variant(rep, var):
    tag = var['name']
    undo = [symx.install_shims(m, names) for m, names in MODS]
    try:
        def harness(c):
            V = SymVars(c)
            wn, syms = kitchen.build(V, var)
            return (V,) + trips(wn)
        n = 0
        bad = set()
        for path in symx.explore(harness, max_paths=3000, timeout_s=400):
            n += 1
            cons = path.constraints()
            if path.exc is not None:
                if 'raised' not in bad:
                    bad.add('raised')
                    m_ = symx.satisfiable(cons)
                    rep.counterexample('roundtrip/%s/raised' % tag, dict(var=var, why='%s: %s' % (type(path.exc).__name__, str(path.exc)[:300])), 'roundtrip')
                continue
            V, d0, d1, d2, d3 = path.value
            ref = normalise(d0)
            for name, other in (('dict', d1), ('json', d2), ('append', d3)):
                if name in bad:
                    continue
                mism, claims = compare(ref, normalise(other))
                if mism:
                    bad.add(name)
                    m_ = symx.satisfiable(cons)
                    rep.counterexample('roundtrip/%s/%s' % (tag, name), dict(V.witness(m_.model, var=var, what=name), why='; '.join(mism[:4])), 'roundtrip')
                    continue
                # group the leaf claims by top-level section so that a failure names where it is
                groups = {}
                for pth, cl in claims:
                    sec = pth.split('/')[1].split('[')[0] if '/' in pth else 'top'
                    groups.setdefault(sec, []).append(cl)
                for sec, cls in groups.items():
                    key = '%s.%s' % (name, sec)
                    if key in bad:
                        continue
                    if not rep.prove('roundtrip/%s/%s/%s/path%d' % (tag, name, sec, n), cons, z3.And(*cls), lambda mdl, V=V, name=name: V.witness(mdl, var=var, what=name), 'roundtrip',
                                     sample='%s round trip, section %s: %d numeric leaves equal' % (name, sec, len(cls))):
                        bad.add(key)
        rep.extra['paths_' + tag] = n
        if not bad:
            rep.reach('roundtrip/' + tag, cons)
    finally:
        for u in undo:
            u()


def check_example(rep, fname):
    """an example network read from its INP file, every length / diameter / roughness / elevation / demand / level / head a proxy"""
    from .c12 import symbolise
    tag = 'example/' + fname.split('/')[-1]
    undo = [symx.install_shims(m, names) for m, names in MODS]
    try:
        def harness(c):
            V = SymVars(c)
            wn = EIO.InpFile().read(fname)
            symbolise(V, wn)
            return (V,) + trips(wn)
        n = 0
        bad = set()
        cons = []
        for path in symx.explore(harness, max_paths=20, timeout_s=900):
            n += 1
            cons = path.constraints()
            if path.exc is not None:
                if 'raised' not in bad:
                    bad.add('raised')
                    rep.counterexample('roundtrip/%s/raised' % tag, dict(example=fname, why='%s: %s' % (type(path.exc).__name__, str(path.exc)[:300])), 'example')
                continue
            V, d0, d1, d2, d3 = path.value
            ref = normalise(d0)
            for name, other in (('dict', d1), ('json', d2), ('append', d3)):
                if name in bad:
                    continue
                mism, claims = compare(ref, normalise(other))
                if mism:
                    bad.add(name)
                    m_ = symx.satisfiable(cons)
                    rep.counterexample('roundtrip/%s/%s' % (tag, name), dict(V.witness(m_.model, example=fname, what=name), why='; '.join(mism[:4])), 'example')
                    continue
                hard = [cl for _, cl in claims if not z3.is_true(z3.simplify(cl))]
                for k in range(0, max(len(hard), 1), 200):
                    if not rep.prove('roundtrip/%s/%s/%d/path%d' % (tag, name, k // 200, n), cons, z3.And(*hard[k:k + 200]) if hard else z3.BoolVal(True),
                                     lambda mdl, V=V, name=name: V.witness(mdl, example=fname, what=name), 'example',
                                     sample='%s round trip: %d numeric leaves equal (%d syntactically identical)' % (name, len(claims), len(claims) - len(hard))):
                        bad.add(name)
                        break
        rep.extra['paths_' + tag] = n
        if n == 0:
            rep.harness_errors.append('roundtrip/%s: no feasible path' % tag)
        if not bad and n:
            rep.reach('roundtrip/' + tag, cons)
    finally:
        for u in undo:
            u()


def replay_example(i):
    from .c12 import symbolise
    fname = i['example']
    vals = {k: v for k, v in i.items() if k not in ('example', 'what', 'why')}
    wn = EIO.InpFile().read(fname)
    if vals:
        symbolise(ConcVars(vals), wn)
    try:
        d0, d1, d2, d3 = trips(wn)
    except Exception as ex:
        return 'round trip raised %s: %s' % (type(ex).__name__, str(ex)[:300])
    ref = normalise(d0)
    for name, other in (('dict', d1), ('json', d2), ('append', d3)):
        if i.get('what') and i['what'] != name:
            continue
        mism, _ = compare(ref, normalise(other))
        if mism:
            return '%s round trip changes the model: %s' % (name, '; '.join(mism[:4]))
    return None


class _Default(dict):
    def __missing__(self, k):
        raise KeyError(k)


def replay_roundtrip(i):
    """plain floats, real json"""
    var = i['var']
    vals = {k: v for k, v in i.items() if k not in ('var', 'what', 'why')}
    if vals:
        V = ConcVars(vals)
        wn, _ = kitchen.build(V, var)
    else:
        wn, _ = kitchen.build(None, dict(var, sym=False))
    try:
        d0, d1, d2, d3 = trips(wn)
    except Exception as ex:
        return 'round trip raised %s: %s' % (type(ex).__name__, str(ex)[:300])
    ref = normalise(d0)
    for name, other in (('dict', d1), ('json', d2), ('append', d3)):
        if i.get('what') and i['what'] != name:
            continue
        mism, _ = compare(ref, normalise(other))
        if mism:
            return '%s round trip changes the model: %s' % (name, '; '.join(mism[:4]))
    return None


def run(rep, only=None):
    rep.explanation = ('The real to_dict / from_dict / write_json / read_json run on the kitchen-sink model whose numeric attributes are z3 proxies (JSON via a token shim; control text re-parsed by the '
                       'real EPANET-style parsers on tokens); structure is compared exactly and z3 decides equality of every numeric leaf. Largely structural: the solver earns its keep on values that '
                       'pass through text (control thresholds, times, settings).')
    rep.encode(NIO.to_dict, NIO.from_dict, NIO.write_json, NIO.read_json, NB.Node.to_dict, NB.Link.to_dict, NB.Registry.to_dict, C.Rule.to_dict, C.ControlCondition._parse_value,
               C.ControlCondition._sec_to_hours_min_sec, C.ControlCondition._sec_to_clock, EIO._read_control_line, EIO._EpanetRule.parse_rules_lines, EIO._EpanetRule.generate_control)
    rep.stub('int/float/isinstance shims in wntr.network.io/elements/model/base/controls/options and wntr.epanet.io; json -> token shim (proxy <-> all-digit JSON integer, exact)')
    rep.templates.append('kitchen-sink model K: 6 junctions, 2 tanks (one with volume curve, overflow, mixing), 2 reservoirs, 6 pipes (CV, closed, vertices), 3 pumps, 5 valves (PRV PSV FCV TCV PBV), 4 patterns, 4 curves, 2 sources, 2 leaks, 5 simple controls, 2 rules')
    rep.bound('kitchen-sink model in four variants (full / without controls / simple controls only / or-of-and), ~200 numeric attributes symbolic incl. control thresholds, time instants and settings; example networks Net1 (thorough: Net2, Net3) read from their INP files with every pipe / junction / tank / reservoir number symbolic')
    tasks = [('variant-' + v['name'], check_variant, (v,)) for v in VARIANTS]
    for f in (['Net1.inp'] if rep.tier == 'quick' else ['Net1.inp', 'Net2.inp', 'Net3.inp']):
        tasks.append(('example-' + f, check_example, ('/repo/examples/networks/' + f,)))
    run_parallel(rep, tasks)

"""Regenerate /verif/MANIFEST.json from the table below (python3 vf/mkmanifest.py)."""
import json, os
ROOT = os.path.dirname(os.path.dirname(os.path.abspath(__file__)))
props = {json.loads(l)['id']: json.loads(l) for l in open(os.path.join(ROOT, 'properties.jsonl'))}

CLAIMED = {
    'C17': dict(
        engine='symx',
        technique='symbolic execution of the real to_si/from_si on z3 Real proxies; SMT (z3, LRA/NRA) decides inverse, linearity, factor-vs-oracle and container obligations per enumerated unit/parameter combination',
        text='For every (flow unit, parameter, mass unit, reaction order, darcy_weisbach) combination - enumerated completely - the real '
             'conversion code is executed on a symbolic real value and z3 proves, for ALL real values, that from_si/to_si are mutual inverses, '
             'linear, equal to the physical-definition factor table within 1e-8 relative, and container-preserving (the inverse also holds against the caller\'s own container read after both calls, i.e. arguments are not converted in place). Bounded only in container '
             'size (2 entries); floats are modelled as reals.',
        note='Trusted: z3; reals-for-floats (replay in floats with 1e-12 relative tolerance); the oracle factor table in vf/props/c17.py written '
             'from the EPANET unit definitions.',
        ref='DESIGN.md section 4, C17'),
    'C07': dict(
        engine='symx+amlsmt',
        technique='the real model builder and ConditionalExpression.evaluate executed on z3 proxies (value-container evaluator); SMT (z3 NRA + uninterpreted power function) decides form, partition, low/high/middle law, continuity and two-point monotonicity of the delivered-demand curve',
        text='For each listed (Pmin, Preq, exponent, per-junction override) configuration the residual of the registered pdd constraint is obtained as a z3 term per '
             'branch by running the real code on symbolic pressure/demand; z3 proves for ALL pressures and demands that d = D*g(p) with g zero below Pmin, one above '
             'Preq, the documented power law between the bands, continuous at every switching point and non-decreasing (tolerance 1e-7). Thorough adds symbolic '
             'Pmin/Preq for exponent 0.5 (all but the two-point queries).',
        note='Trusted: z3; reals-for-floats with 1e-7 tolerance; exponents other than 0.5/1 as an uninterpreted strictly increasing function anchored at concrete '
             'arguments; the Newton solve that drives the residual to zero (C01 trusted base). Bound: parameter grid listed in vf/props/c07.py.',
        ref='DESIGN.md section 4, C07'),
}

CLAIMED['C20'] = dict(
    engine='symx',
    technique='symbolic execution of the real wntr.metrics functions on models and pandas object-dtype tables of z3 proxies; SMT (z3 LRA/NRA/LIA, exp/log uninterpreted) decides equality of every returned entry with the documented formula',
    text='expected_demand, average_expected_demand (incl. the _gcd/_lcm period computation on symbolic integers), water_service_availability, todini_index, '
         'modified_resilience_index (both modes), tank_capacity (cylinder and volume curve), population, pump_power/energy/cost and annual network cost / GHG '
         'are executed on a template network and result tables whose numeric entries are symbolic; for every explored path z3 proves the returned terms equal '
         'the documented formulas for ALL values in the stated ranges (pattern_start symbolic for expected_demand; table look-ups fork over the nearest entry).',
    note='Trusted: z3; floats as reals; pandas/numpy container plumbing executed concretely (object dtype) with three shims listed in the evidence; one template '
         'network; pattern lengths from a listed grid; head-pump curve concrete in the cost check. Known finding: annual_network_cost reads the efficiency percentage as a fraction.',
    ref='DESIGN.md section 4, C20')

CLAIMED['C04'] = dict(
    engine='symx+ctrlplane',
    technique='symbolic execution of the real condition classes and of the real WNTRSimulator.run_sim time-stepping loop (Newton solve stubbed) on symbolic Int thresholds / start_clocktime; every feasible path explored; SMT (z3 LIA with mod by constants) proves the recorded timeline equals a reference timeline',
    text='Unit: SimTimeCondition/TimeOfDayCondition.evaluate for all (prev, cur, threshold, start_clocktime) in the stated ranges: fires iff an instant lies in (prev, cur], '
         'backtrack lands on it, range relations true exactly on their interval (once, daily, periodic). System: the real run_sim loop (presolve backtracking, priority sort, '
         'rule grid, change tracker, result recording) on a 3-pipe network with up to 2 (thorough 3) simple controls or rules with symbolic thresholds: at every recorded step the '
         'target status equals the reference (last instant wins, ties by priority; rules at positive multiples of the rule step), a step exists at every instant where the target changes, '
         'all grid times are recorded, no other steps appear.',
    note='Trusted: z3; the stub that replaces the Newton solve (time controls do not depend on hydraulics); configurations (H, R, report, duration) from a listed family; '
         'equal-priority conflicting controls at the same instant left open.',
    ref='DESIGN.md section 4, C04')

CLAIMED['C01'] = dict(
    engine='amlsmt+symx',
    technique='the real model builder, ModelUpdater, expression evaluation, store_results_in_network and save_results executed on z3 proxies (value-container evaluator); SMT (z3 LRA/LIA) decides the node-balance identities and the requested-demand formula for all values',
    text='For each template network x {DD, PDD} x leak placement and after each step of a leak/isolation rebuild history, the residual of every junction balance row equals '
         'D - sum(inflows) + sum(outflows) + [leak] L with in/out taken from the links own end-node names, for ALL flows/demands/leak rates; the reported flowrate, demand and leak_demand '
         'written by the real result code satisfy the node balance identically (junctions), tank and reservoir demand equal net inflow (minus leak); the requested demand parameter equals '
         'sum base x pattern[((t + pattern_start)//dt) mod n] x multiplier for symbolic bases, multipliers, time and pattern_start.',
    note='Trusted: z3; NewtonSolver converges only when max|residual| < tol (not encoded); RPN/C++ evaluation of the same expressions is C15; templates <= 6 nodes / 8 links; floats as reals.',
    ref='DESIGN.md section 4, C01')

CLAIMED['C02'] = dict(
    engine='amlsmt+symx',
    technique='the head-loss row of every link built by the real model builder and evaluated by the real expression code on z3 proxies; SMT (z3 NRA, fractional powers as strictly monotone uninterpreted functions) decides the documented head-flow law, oddness, monotonicity, continuity per link type and status; parameter formulas and pump-curve coefficients executed on symbolic attributes',
    text='For every link class (pipe incl. CV, head pump with 1/2/3-point curve, power pump, PRV, PSV, FCV, TCV) in each status it can have, on templates with links into/out of tanks and '
         'reservoirs and parallel links, for both Hazen-Williams approximations: closed => residual is the flow itself; open pipe => residual = hs - he - F(q) with the documented F, F odd, '
         'zero at zero, strictly increasing, piecewise pieces as documented and continuous; pumps on H = A - B q^C above the smoothing point, extension non-increasing; power pump P = dH q 9810; '
         'active valves hold their setting; open valves / TCV obey 8K/(g pi^2 d^4) q^2. For ALL flows and heads, and (second pass) all positive coefficients. Update audit: after every single change the ModelUpdater has a registration for (status, isolation flag, setting, diameter, roughness, length, minor loss, power, leak status/area/coefficient, elevation, PDD pressures) the incrementally updated model has the same rows and parameter values as a fresh build.',
    note='Trusted: z3; floats as reals (1e-8 relative slack where the code folds float constants); Newton solve drives residuals to zero; 3-point pump fit (scipy) enters as returned numbers; '
         'reverse-flow branches of pumps need the solver and are not claimed.',
    ref='DESIGN.md section 4, C02')

CLAIMED['C08'] = dict(
    engine='amlsmt+symx+ctrlplane',
    technique='leak row built by the real model builder and evaluated by the real ConditionalExpression code on z3 proxies (exact square-root encoding), SMT (z3 NRA) decides the three-piece law, continuity, monotonicity; leak activation window by symbolic execution of the real run_sim loop (Newton solve stubbed) on symbolic Int start/end times, SMT (LIA) decides the recorded timeline',
    text='For a leaking junction and a leaking tank (DD and PDD): L = Cd A sqrt(2 g p) for p > 1e-4, L = 1e-11 p for p <= 0, bounded smoothing band between, no jump at either band edge, non-decreasing in p - '
         'for ALL pressures (and all Cd in [0.01,1], A in [1e-6,1] in the symbolic-coefficient pass). With add_leak(start, end) for symbolic start/end: the leak is reported exactly on records with '
         'start <= t < end, steps are inserted at start and end, reported leak_demand is the model leak rate while active and 0 otherwise, tank demand is net inflow minus leak, two simultaneous leaks, '
         'and after remove_leak + reset_initial_values nothing leaks and no leak control remains.',
    note='Trusted: z3; floats as reals; Newton solve (stub returns a constant leak rate when a leak row exists); template T7; durations <= 2 hydraulic steps.',
    ref='DESIGN.md section 4, C08')

CLAIMED['C19'] = dict(
    engine='symx',
    technique='symbolic execution of the real split_pipe / break_pipe / skeletonize on models with z3-proxy attributes, all feasible paths explored; SMT (z3 LRA/NRA) decides length, position, neutrality, rest-unchanged and demand-conservation identities; discrete structure checked on every explored path',
    text='split/break: for 4 end-node contexts x both operations x either end x copy/in-place x check valve x closed x polyline, with length, diameter, roughness, minor loss, end elevations, '
         'end coordinates and split fraction s in [0,1] symbolic: piece lengths are sL and (1-s)L, new junction(s) at fraction s of elevation and of the line/polyline, new pipe same d and C and no '
         'check valve, zero demand at the new junction, all other elements and (return_copy) the input model unchanged - for ALL values. skeletonize: on a 12-node template with symbolic base demands, '
         'pattern multipliers, diameters and threshold: total demand conserved at every pattern step, demand at each retained junction equals the sum over the nodes mapped to it, tanks/reservoirs/'
         'pumps/valves/control-referenced and excluded elements retained, map is a partition, on every feasible path.',
    note='Trusted: z3; floats as reals; skeletonize initial simulation stubbed (its output is unused); hydraulic neutrality decided through the resistance formulas, not by simulation. '
         'Known finding: split duplicates the minor-loss coefficient.',
    ref='DESIGN.md section 4, C19')

CLAIMED['C06'] = dict(
    engine='symx+ctrlplane',
    technique='symbolic execution of the real update_tank_heads / Tank.get_volume on symbolic pre-states and of the real run_sim loop (Newton solve stubbed, tank inflow forked from a signed set, symbolic initial level and limits); all feasible paths incl. partial steps at the limits explored; SMT (z3 LRA with floor) decides integration, limits, no discharge at min / no fill at max',
    text='Unit: for an arbitrary pre-state, new head = previous head + q dt / A (cylinder, symbolic diameter) and V(new) - V(old) = q dt through a volume curve; get_volume equals the geometric / curve volume. '
         'System: on a tank with a link ending in / starting at it (and an extra check-valve pipe), for ALL initial levels and level limits and every inflow sequence from the listed sets over <= 2 hydraulic steps: '
         'first record is init_level; between consecutive records the level change times the area equals reported net inflow times elapsed time; levels stay within [min, max] up to 2 s of the largest flow; '
         'a tank at/below min never reports discharge and one at/above max never reports filling.',
    note='Trusted: z3; contract H for the stubbed solve (closed link carries no flow; the neighbour head keeps the gradient of the flow that led to a closure); rounded comparisons assume the two sides are equal or >= 1e-10 apart; '
         'limit-crossing instants are not exact integer seconds; tank area concrete (50 m2).',
    ref='DESIGN.md section 4, C06')

CLAIMED['C05'] = dict(
    engine='symx+ctrlplane',
    technique='symbolic execution of the real TankLevelCondition/ValueCondition.evaluate and of the real run_sim loop (Newton solve stubbed; tank inflow forked per solve; control thresholds symbolic); all feasible paths of presolve backtracking, priority ordering and post-solve re-solving explored; SMT (z3 LIRA) decides that every control whose condition holds on a recorded state has its commanded status',
    text='Unit: for all levels, previous levels, thresholds and inflows the level condition is true iff the relation holds, and when it becomes true the backtrack is the whole number of seconds since the crossing. '
         'System: tank network with up to 2 (thorough 3) user controls on one pipe (two thresholds crossed in one step, different priorities, level / head / junction-pressure sources; one configuration targets the tank inlet itself: closed by the level limit, released once the tank has drained), thresholds symbolic, '
         'tank inflow forked per solve: at EVERY recorded step every control whose condition holds has its commanded status unless an equal/higher-priority triggered control commands otherwise, '
         'and a control that changes the pipe does so within 2 s of flow of its threshold (partial step).',
    note='Trusted: z3; contract H for the stubbed solve; tank geometry concrete in the multi-control configurations; assume-guarantee lemma on the backtrack (proved at unit level); a hysteresis pair cycling over two '
         'steps is beyond z3 within the budget and not claimed; target pipe without CV/pump/tank-limit closure.',
    ref='DESIGN.md section 4, C05')

CLAIMED['C09'] = dict(
    engine='symx+ctrlplane',
    technique='symbolic execution of the real run_sim loop (Newton solve stubbed) with symbolic initial link-status bits and symbolic control instants; z3 decides the feasible orderings and certifies that the path tree is exhausted; on every path the real incremental graph bookkeeping and the C++ search rebuilt from source are executed and compared with an independent reachability oracle',
    text='On three graphs (G3 with EPANET-style ids shared by a junction and a pipe) - parallel links of opposite orientation and of different type, bridge, dead ends, reservoir + tank) for ALL 2^k initial closed/open patterns of the listed links and all orderings of up to two '
         'opening/closing time controls with symbolic instants: at every solve junction._is_isolated <=> not reachable from a source over non-closed links, link flags follow, isolated junctions have no balance row, '
         'and the recorded results are zero exactly for cut-off junctions and their links and non-zero for connected ones, including after reconnection.',
    note='Trusted: z3 for path feasibility; the graph search itself is executed per path, not encoded (no C++ symbolic executor available) - this is bounded exhaustive path enumeration driven by the solver; stubbed solve returns non-zero demand/head for connected junctions.',
    ref='DESIGN.md section 4, C09')

CLAIMED['C16'] = dict(
    engine='symx+ctrlplane',
    technique='symbolic execution of the real run_sim loop under a symbolic fault schedule (failing solve index a symbolic Int; backup solver, its success and convergence_error forked; symbolic time-control instant; trial-limit storm); every feasible path explored; SMT (z3 LIA) decides time-ordering, report-grid and prefix-equality claims',
    text='On every feasible path: run_sim returns or raises RuntimeError only; a failed solve (primary and backup) raises with convergence_error=True, otherwise sets error_code, warns and stops; no failure => '
         'error_code None and the run reaches the duration; recorded times strictly increase and lie on the report grid; every element has one entry per recorded time and the real get_results builds tables with one '
         'column per element sharing the index; the records before the failure equal, term for term, those of the fault-free run. Includes exceeding the trial limit through flipping post-solve controls and report steps finer than / not a multiple of the hydraulic step. '
         'Solver level: the real NewtonSolver.solve on symbolic residual norms and a symbolic clock (MAXITER = BT_MAXITER = 2, Jacobian singular at iteration 0, 1 or never through the real scipy routine) always ends in a status triple, converged only below the tolerance; '
         'the real _solver_helper maps every status fsolve can report and a raising newton_krylov to error without loading values.',
    note='Trusted: z3; in the run_sim harness the numeric kernel is a stub; what the linear algebra does to the numbers and finiteness of values are outside; one template; <= 4 hydraulic steps.',
    ref='DESIGN.md section 4, C16')

CLAIMED['C11'] = dict(
    engine='symx+ctrlplane',
    technique='symbolic execution of the real run_sim loop (Newton solve stubbed), reset_initial_values, deepcopy and to_dict on a model holding z3 proxies, with symbolic control instants / values / thresholds; every feasible path explored; SMT (z3) decides equality of every symbolic leaf of the model dictionary before/after and of the recorded runs',
    text='For controls on pipe, valve and pump status, valve setting, leak_status (junction and tank), a tank-level control and a rule, with symbolic instants and values: the dictionary of the model is identical '
         'before and after a run; after reset_initial_values a rerun - also after a run that was cut short - records exactly the same times, statuses, settings, tank heads, leak flags and demands; a deepcopy '
         'records the same, and so does a second run_sim on the same WNTRSimulator object. Configurations include a dead end closed at the end of the run and numeric report steps finer than / not a multiple of the hydraulic step. write_inpfile (the Python half of EpanetSimulator) leaves the dictionary unchanged.',
    note='Trusted: z3; Newton solve stubbed (numeric reruns up to floating-point noise are outside); one scenario network; <= 2 hydraulic steps. Known findings: controls on pump power and on pump base_speed write the definition.',
    ref='DESIGN.md section 4, C11')

CLAIMED['C10'] = dict(
    engine='symx+ctrlplane',
    technique='symbolic execution of the real run_sim loop (Newton solve stubbed) once uninterrupted and once in 2-3 pieces with a new simulator per piece and an optional pickle round trip, on symbolic control/rule/leak instants, setting values and a tank-level threshold; every feasible path explored; SMT (z3) decides record-by-record equality and strict monotonicity of the concatenated times',
    text='For time controls, rules on a finer rule grid (with ELSE), a clock-time control with symbolic start_clocktime, a leak window straddling the pause and a tank-level control, with one or two pauses on the hydraulic grid, '
         'with and without pickling the model between the parts: the continued run starts at the first hydraulic step after the pause, the concatenated times strictly increase, and the concatenated records '
         '(times, statuses, settings, flows, tank heads, demands, leak demands) equal those of the uninterrupted run for ALL instants/values.',
    note='Trusted: z3; Newton solve stubbed (same function of the model state in both runs); pickle of real floats and numeric equality are covered by the concrete replay only; T <= 3 hydraulic steps; one scenario network.',
    ref='DESIGN.md section 4, C10')

CLAIMED['C13'] = dict(
    engine='symx',
    technique='symbolic execution of the real to_dict / from_dict / write_json / read_json on a kitchen-sink model whose ~200 numeric attributes are z3 proxies (JSON through a token shim, control text re-parsed by the real EPANET-style parsers on tokens); structural comparison plus SMT (z3) equality of every numeric leaf',
    text='For the kitchen-sink model (every element type, vertices, several demands per junction, curves, patterns, sources, leaks, options, every simple-control form, rules with AND/OR/ELSE/PRIORITY) and ALL values of its '
         'numeric attributes: to_dict(from_dict(to_dict(K))), the JSON round trip and from_dict(..., append=empty model) give a dictionary with the same keys, every numeric leaf equal and every other leaf identical '
         '(tuples = lists, junction without demands = one zero demand).',
    note='Trusted: z3; one model structure (four variants); clock times concrete (the parsers inspect their text); mostly a structural check - the solver matters for numbers that travel as text. '
         'Known finding: Or(And(A,B),C) rule conditions change meaning.',
    ref='DESIGN.md section 4, C13')

CLAIMED['C14'] = dict(
    engine='symx',
    technique='edit histories whose opcodes and operands are solver-chosen (forked choices over small name pools) executed on the real public API; z3 decides branch feasibility and certifies exhaustion of the bounded history tree; after every operation all views and usage records are cross-checked',
    text='For EVERY history of length 1 over 22 operations (add/remove of junction, tank, reservoir, pipe, head/power pump, valve types, pattern, curve, source, control; reassignment of end nodes, speed pattern, pump curve, '
         'volume curve) from three start models, and every history of length 2 within each operation family (thorough: length 2 over all operations, length 3 per family): name lists = iterators = counts, typed subsets '
         'partition the node and link sets, end nodes are registered objects, get_links_for_node (ALL/INLET/OUTLET) and to_graph equal the links by end-node names, usage records and actual uses coincide, and a removal of '
         'an element in use is refused leaving the dictionary unchanged. Rejected operations are part of the histories.',
    note='Bounded exhaustive enumeration driven by the solver (discrete input space), not a proof beyond the bound; name pools of 3 nodes / 2 links / 2 patterns / 3 curves; re-used source names excluded; self-loop links are included.',
    ref='DESIGN.md section 4, C14')

CLAIMED['C18'] = dict(
    engine='symx',
    technique='valve layers as solver-chosen bit vectors (forked choices) executed on the real pandas/networkx code and compared with a union-find oracle (bounded exhaustive enumeration certified by the solver); demand/length ratios by symbolic execution of the real valve_segment_attributes on pandas object Series of z3 proxies, decided by SMT (z3 NRA)',
    text='Partition: for 4 graphs (parallel links, loop, dead ends, two components) and ALL 2^(2*links) valve layers, with and without a duplicated row: two elements share a segment exactly when they are joined '
         'without passing a valve, labels are positive, segment sizes count their members, num_surround counts the other valves on the two segments a valve separates (0 when by-passed). Ratios: for ALL '
         'non-negative node demands and link lengths, demand_increase and length_increase equal (a+b)/max(a,b) - 1 over the two segments, 0 for a by-passed valve.',
    note='The partition half is enumeration of a discrete input space (pandas/networkx containers cannot be symbolic); only the ratio half is a for-all-values solver verdict. Graphs <= 5 nodes / 5 links.',
    ref='DESIGN.md section 4, C18')

CLAIMED['C15'] = dict(
    engine='symx+cxxsym',
    technique='the real operator overloading / aml.Model registration executed in Python and the C++ evaluator (set_structure, evaluate, evaluate_csr_jacobian, _evaluate, add/remove) INTERPRETED from clang\'s JSON AST of the current evaluator.cpp, both on z3 Real proxies; every value-dependent branch forked; SMT (z3 NRA + uninterpreted transcendentals) decides residual == direct evaluation == reference and Jacobian == reference derivative per path',
    text='For ~900 expression shapes of a bounded grammar (all binary operators x all leaf-kind pairs incl. reflected forms and the 0/1 shortcuts, 11 unary operators, two nested binary operators in both associations, '
         'unary/binary mixes, shared sub-expressions also across constraints, inequality / if_else, conditional constraints with 2-3 branches, models of up to 3 constraints) and for 15 (thorough 27) add / remove / ConstraintDict / '
         'set value / load_var_values_from_x / set_structure histories (incl. values changed between the residual and the Jacobian evaluation): for ALL values of the variables and parameters in [-8, 8], on every feasible path, the residual the interpreted C++ returns at Constraint.index equals '
         'Constraint.evaluate() and an independent reference value; the CSR Jacobian entry at (Constraint.index, Var.index) equals an independent rule-table derivative (0 for unused variables) wherever the derivative exists; '
         'indices are permutations; get_x / Leaf.value read back the last value given; nothing raises and no deleted, uninitialised or out-of-range C++ memory is touched. Object addresses (std::set order) ascending and descending (thorough: scrambled).',
    note='Trusted: z3; clang\'s AST; the container / allocation model of vf/cxxsym.py (validated on every run against the compiled evaluator rebuilt from the same source); the SWIG wrapper and scipy.sparse only run in the replay; '
         'exp/log/sin/.../non-integer powers are uninterpreted (congruence only); floats as reals; shapes <= 2 nested operators (3 in the shared / piecewise families); the reference evaluator and differentiator in vf/props/c15.py.',
    ref='DESIGN.md section 4, C15')

CLAIMED['C12'] = dict(
    engine='symx',
    technique='symbolic execution of the real write_inpfile / read_inpfile (InpFile.write/read, to_si/from_si, control and rule parsers) on a model of z3 Real/Int proxies; numbers cross the real file as tokens whose read-back value is a fresh variable within half a unit of the last printed digit; SMT (z3 LRA/LIA) decides per path that every attribute returns within the precision of the file and that a second cycle is the identity',
    text='The kitchen-sink model (every element type, statuses, curves, patterns, demand categories, sources, options, tags, vertices, simple controls on status/setting at times, clock times, levels and pressures, rules with AND/OR/ELSE/PRIORITY) '
         'with ~230 symbolic numeric attributes is written and read back twice, for each of the ten flow units (INP 2.2; 2.0 for two unit systems quick / all ten thorough) and for variants (D-W / C-M head loss, reaction orders, defaults not written, GPV, clock thresholds in the 12 o\'clock hours, concrete time-option sets; thorough: example networks Net1-3 with symbolic attributes). On every feasible path: same structure after the normalisations the statement allows; every '
         'numeric attribute z3-proved within the tolerance table of vf/props/c12.py (11 significant digits in general; 6 decimals for curves and patterns; 4 decimals for reaction and energy entries; 6 digits inside rules); the second file has the '
         'same text as the first (token by token) and the second model is z3-equal to the first copy.',
    note='Trusted: z3; floats as reals (the digit-level behaviour of float formatting is covered by the replay only); the token model of str.format / float(); one model structure; times concrete except control instants; '
         'the tolerance table is this check\'s reading of "the precision of the file format".',
    ref='DESIGN.md section 4, C12')

NOT_APPLICABLE = {
    'C03': 'compares the numerical output of the closed EPANET shared library with a compiled Newton/SuperLU iteration; neither can be executed '
           'symbolically with the tools on this image and a contract standing in for EPANET would be the property itself (DESIGN.md section 5)',
}


def main():
    checks = []
    for pid in sorted(CLAIMED):
        c = CLAIMED[pid]
        checks.append({
            'property_id': pid,
            'quick_cmd': './check %s quick' % pid,
            'thorough_cmd': './check %s thorough' % pid,
            'evidence_file': 'evidence/%s.json' % pid,
            'replay_cmd_template': './.venv/bin/python -m vf.replay {path}',
            'engine': c['engine'],
            'level_claimed': {'category': 'other', 'text': c['text'], 'design_ref': c['ref']},
            'level_note': c['note'],
            'technique': c['technique'],
        })
    na = [{'property_id': p, 'reason': NOT_APPLICABLE[p]} for p in sorted(NOT_APPLICABLE)]
    for pid in sorted(props):
        if pid not in CLAIMED and pid not in NOT_APPLICABLE:
            na.append({'property_id': pid, 'reason': 'check not built yet in this round (planned, see DESIGN.md section 4); nothing is claimed'})
    m = {
        'version': 1,
        'setup_cmd': './vf/bootstrap.sh',
        'hooks': {'guard': 'USEPA_WNTR_VERIF', 'enable': 'none needed: all instrumentation is injected into module namespaces inside the checking process',
                  'baseline_off_cmd': '/venv/bin/python vf/baseline.py', 'source_commits': [], 'add_only': True},
        'engines': [
            {'name': 'symx', 'path': 'vf/symx.py', 'serves_properties': sorted(p for p in CLAIMED if 'symx' in CLAIMED[p]['engine']),
             'kind_free_text': 'symbolic execution of the real Python code by z3 value proxies + DART-style path explorer; SMT decides each obligation'},
            {'name': 'amlsmt', 'path': 'vf/amlsmt.py', 'serves_properties': sorted(p for p in CLAIMED if 'amlsmt' in CLAIMED[p]['engine']),
             'kind_free_text': 'translation of the expression DAGs built by the real model builder (wntr.sim.aml) into z3 terms'},
            {'name': 'ctrlplane', 'path': 'vf/ctrlplane.py', 'serves_properties': sorted(p for p in CLAIMED if 'ctrlplane' in CLAIMED[p]['engine']),
             'kind_free_text': 'the real WNTRSimulator.run_sim executed on proxies with only the Newton solve replaced by a policy stub (contract H)'},
            {'name': 'cxxsym', 'path': 'vf/cxxsym.py', 'serves_properties': sorted(p for p in CLAIMED if 'cxxsym' in CLAIMED[p]['engine']),
             'kind_free_text': 'interpreter of evaluator.cpp over clang\'s JSON AST with symbolic doubles (std containers, new/delete and iterators modelled)'},
        ],
        'checks': checks,
        'not_applicable': na,
        'notes': 'Exit codes: 0 property held within the stated bounds; 1 + VIOLATION line = counterexample reproduced on the real code; 2 = harness error / '
                 'inconclusive (never a verdict). Known findings: known_findings.json.',
    }
    json.dump(m, open(os.path.join(ROOT, 'MANIFEST.json'), 'w'), indent=1)
    print('claimed', len(checks), 'not_applicable', len(na))


if __name__ == '__main__':
    main()

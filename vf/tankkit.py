"""Shared harness for the tank-level properties (C05, C06): a small network around one tank, run through the REAL
WNTRSimulator.run_sim with the Newton solve replaced (vf.ctrlplane).

"Linear variant" (see DESIGN): the tank's area is concrete, the flow into the tank at every solve is drawn by a forked
choice from a finite signed set (zero when the real code has closed the link - contract H1), and the initial level, the
level limits and all control thresholds are symbolic reals.  Heads next to the tank are chosen consistent with the flow
direction (contract H2) because the internal tank controls compare them.
"""
import math
import z3

import wntr
from wntr.network.base import LinkStatus
from wntr.network.controls import Control, ControlAction, ValueCondition, Comparison, ControlPriority

from . import symx, ctrlplane
from .symx import Sym, real, rv

AREA = 50.0
DIAM = math.sqrt(4.0 * AREA / math.pi)


def build(V, cfg):
    wn = wntr.network.WaterNetworkModel()
    wn.add_reservoir('R', base_head=100.0)
    wn.add_junction('J1', base_demand=0.0, elevation=0.0)
    wn.add_junction('J2', base_demand=0.01, elevation=0.0)
    wn.add_tank('T', elevation=cfg.get('tank_elev', 0.0), init_level=5.0, min_level=1.0, max_level=10.0, diameter=DIAM)
    wn.add_pipe('P1', 'R', 'J1', length=100.0, diameter=0.5, roughness=100.0)
    if cfg.get('second_link') == 'first_in':
        wn.add_pipe('P4', 'J2', 'T', length=100.0, diameter=0.3, roughness=100.0, check_valve=True)   # CV pipe INTO the tank, listed before P2
    if cfg.get('second_link') == 'first':
        wn.add_pipe('P4', 'T', 'J2', length=100.0, diameter=0.3, roughness=100.0, check_valve=True)   # CV pipe out of the tank, listed before P2
    if cfg.get('tank_link', 'pipe_in') == 'pipe_in':
        wn.add_pipe('P2', 'J1', 'T', length=100.0, diameter=0.5, roughness=100.0, check_valve=bool(cfg.get('p2_cv')))      # ends in the tank
    else:
        wn.add_pipe('P2', 'T', 'J1', length=100.0, diameter=0.5, roughness=100.0)      # starts at the tank
    wn.add_pipe('P3', 'J1', 'J2', length=100.0, diameter=0.3, roughness=100.0)          # target of the user controls
    if cfg.get('valve_target'):
        wn.add_valve('V3', 'J1', 'J2', 0.3, 'TCV', 0.0, 10.0)                               # valve parallel to P3: target of setting / status controls
    if cfg.get('bypass'):
        wn.add_pipe('P5', 'J1', 'J2', length=100.0, diameter=0.3, roughness=100.0, initial_status='CLOSED')   # closed bypass around P3
        wn.get_link('P5')._user_status = LinkStatus.Closed
    if cfg.get('second_link') and cfg.get('second_link') not in ('first', 'first_in'):
        wn.add_pipe('P4', 'T', 'J2', length=100.0, diameter=0.3, roughness=100.0, check_valve=True)   # CV pipe out of the tank
    if cfg.get('vol_curve'):
        wn.add_curve('VC', 'VOLUME', [(0.0, 0.0), (4.0, 100.0), (20.0, 1700.0)])      # area 25 below 4 m, 100 above
        wn.get_node('T').vol_curve_name = 'VC'
    t = wn.options.time
    t.hydraulic_timestep = cfg['H']
    t.rule_timestep = cfg.get('R', cfg['H'])
    t.report_timestep = cfg.get('report', 'ALL')
    t.duration = cfg['dur']
    tank = wn.get_node('T')
    x = {}
    if cfg.get('concrete_tank'):
        # C05: the level limits are C06's subject; keeping them and the initial level concrete keeps the queries linear and small
        tank._min_level, tank._max_level = 1.0, 12.0
        x['min'], x['max'], x['init'] = 1.0, 12.0, cfg.get('init', 5.0)
    else:
        x['min'] = tank._min_level = V.real('min_level', 0, 8)
        x['max'] = tank._max_level = V.real('max_level', 2, 20)
        x['init'] = V.real('init_level', 0, 20)
        V.c.assume(x['min'] + 0.5 <= x['init']) if V.symbolic else None
        V.c.assume(x['init'] + 0.5 <= x['max']) if V.symbolic else None
        if cfg.get('vol_curve') and V.symbolic:
            # keep the level limits strictly inside the curve's range: at the very ends np.interp clamps and the partial step that
            # lands one second past a limit would leave the curve (documented validity: limits within the curve)
            V.c.assume(x['min'] >= 0.5)
            V.c.assume(x['max'] <= 19.0)
    tank._init_level = x['init']
    tank._head = tank._prev_head = x['init'] + tank.elevation
    x['controls'] = []
    p3 = wn.get_link('P3')
    for k, spec in enumerate(cfg.get('controls', [])):
        thr = V.real('thr%d' % k, 0, 20)
        rel = {'lt': Comparison.lt, 'gt': Comparison.gt, 'le': Comparison.le, 'ge': Comparison.ge}[spec['rel']]
        cond = ValueCondition(tank, spec.get('attr', 'level'), rel, 0.0)
        cond._threshold = thr
        tgt = wn.get_link(spec.get('target', 'P3'))
        if cfg.get('via_reader') and spec.get('attr', 'level') == 'level':
            # the control as the INP reader builds it from a [CONTROLS] line (its action carries what the reader puts there)
            from wntr.epanet.io import _read_control_line
            from wntr.epanet.util import FlowUnits
            word = ('%g' % spec['value']) if spec.get('what', 'status') == 'setting' else {0: 'CLOSED', 1: 'OPEN'}[int(spec['value'])]
            line = 'LINK %s %s IF NODE T %s 5.0' % (tgt.name, word, 'ABOVE' if spec['rel'] in ('gt', 'ge') else 'BELOW')
            ctl = _read_control_line(line, wn, FlowUnits.SI, 'u%d' % k)
            ctl._condition._threshold = thr
            ctl._priority = ControlPriority(spec.get('priority', 3))
            wn.add_control('u%d' % k, ctl)
            x['controls'].append(dict(spec, thr=thr))
            continue
        if spec.get('what', 'status') == 'setting':
            act = ControlAction(tgt, 'setting', spec['value'])
        else:
            act = ControlAction(tgt, 'status', LinkStatus(spec['value']))
        ctl = Control(cond, act, priority=ControlPriority(spec.get('priority', 3)))
        wn.add_control('u%d' % k, ctl)
        x['controls'].append(dict(spec, thr=thr))
    if cfg.get('time_control'):
        # a user time control of high priority somewhere inside the run (its instant may fall in the step in which a level limit is reached)
        from wntr.network.controls import SimTimeCondition
        cnd = SimTimeCondition(wn, Comparison.eq, 0)
        cnd._threshold = V.int('t_user', 0, cfg['dur'])
        wn.add_control('user_time', Control(cnd, ControlAction(p3, 'status', LinkStatus.Closed), priority=ControlPriority(5)))
    if cfg.get('p3_closed'):
        p3.initial_status = LinkStatus.Closed
        p3._user_status = LinkStatus.Closed
    return wn, x


def make_policy(cfg, choose):
    """choose(name, options) -> one option (forked under the explorer, looked up in the replay)"""
    qset = cfg['qset']
    sign_in = 1.0 if cfg.get('tank_link', 'pipe_in') == 'pipe_in' else -1.0

    def flow_of(plane, wn, ln):
        k = plane.calls - 1
        if ln == 'P2':
            q = choose('q%d' % k, qset)          # net flow INTO the tank through P2
            plane.tank_q = q
            if q != 0:
                plane.last_q = q
            return sign_in * q
        if ln == 'P4':
            # CV pipe out of the tank: draws from the listed set when the configuration lets the tank drain through it
            if cfg.get('o_when_shut'):
                # the tank drains only while its inlet P2 is shut (no fork)
                o = cfg['oset'][0] if wn.get_link('P2').status == LinkStatus.Closed else 0.0
            else:
                o = choose('o%d' % k, cfg['oset']) if cfg.get('oset') else 0.0
            plane.tank_o = o
            return o
        return 0.01

    def head_of(plane, wn, nn):
        tank = wn.get_node('T')
        q = getattr(plane, 'tank_q', 0.0)
        if nn == 'J1':
            if wn.get_link('P2').status == LinkStatus.Closed:
                # closed: the neighbour's head is free under H; keep the pressure gradient of the flow that led to the closure
                # (a network whose gradient reverses at that instant is outside this bound), so the link is not re-opened at once
                last = getattr(plane, 'last_q', 0.0)
                return tank.head + (1.0 if last > 0 else -1.0)
            return tank.head + (1.0 if q > 0 else (-1.0 if q < 0 else 0.0))
        if nn == 'J2' and cfg.get('oset'):
            # contract H2 for the CV pipe P4 (T -> J2): it carries flow only down a head gradient
            if cfg.get('second_link') == 'first_in':
                return tank.head + 1.0 if getattr(plane, 'tank_o', 0.0) > 0 else tank.head - 1.0
            return tank.head - 1.0 if getattr(plane, 'tank_o', 0.0) > 0 else tank.head + 1.0
        return 50.0
    pol = ctrlplane.table_policy(flow_of, head_of)

    def policy(plane, wn, m):
        # flows first (sets plane.tank_q), then heads
        plane.tank_q = 0.0
        plane.tank_o = 0.0
        pol(plane, wn, m)
    return policy


def tank_series(res):
    lv = ctrlplane.series(res, 'node', 'pressure', 'T')
    dm = ctrlplane.series(res, 'node', 'demand', 'T')
    return res.time, lv, dm


def ri(x):
    t = symx.term(x)
    return t


import contextlib
import wntr.network.controls as _C


@contextlib.contextmanager
def backtrack_lemma():
    """Assume-guarantee step that keeps the system-level queries tractable: whenever the real TankLevelCondition.evaluate
    returns a symbolic backtrack b, add the fact  0 <= b <= sim_time - prev_sim_time  to the path.  It is not taken on
    trust: C05 unit/*/backtrack proves 0 <= b <= (seconds since the crossing) for all inputs, and the crossing lies inside
    the step because the level is linear in time between two solves (C06 unit/*/euler)."""
    real_eval = _C.TankLevelCondition.evaluate

    def evaluate(self):
        r = real_eval(self)
        b = self._backtrack
        c = symx.Ctx.cur
        if c is not None and isinstance(b, Sym):
            wn = getattr(self._source_obj, '_options', None)
            # the tank does not know its model; the simulator's clock is published by the harness
            clock = getattr(c, 'clock', None)
            if clock is not None:
                dt = clock.sim_time - clock._prev_sim_time
                c.assume(z3.And(symx.term(b) >= 0, real(b) <= real(dt)))
        return r
    _C.TankLevelCondition.evaluate = evaluate
    try:
        yield
    finally:
        _C.TankLevelCondition.evaluate = real_eval
